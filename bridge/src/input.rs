//! Type-erased inputs, base inputs with observable position, and dynamically built stacks of the
//! crate's input wrappers (CountedInput / depth limit / mem limit) in any order.

use crate::codec::{CountedInput, Decode, DecodeLimit, Error, Input, MemTrackingInput};
use std::cell::RefCell;

/// Object-safe mirror of `Input`.
pub trait InputObj {
	fn o_remaining_len(&mut self) -> Result<Option<usize>, Error>;
	fn o_read(&mut self, into: &mut [u8]) -> Result<(), Error>;
	fn o_read_byte(&mut self) -> Result<u8, Error>;
	fn o_descend_ref(&mut self) -> Result<(), Error>;
	fn o_ascend_ref(&mut self);
	fn o_on_before_alloc_mem(&mut self, size: usize) -> Result<(), Error>;
}

impl<I: Input> InputObj for I {
	fn o_remaining_len(&mut self) -> Result<Option<usize>, Error> {
		self.remaining_len()
	}
	fn o_read(&mut self, into: &mut [u8]) -> Result<(), Error> {
		self.read(into)
	}
	fn o_read_byte(&mut self) -> Result<u8, Error> {
		self.read_byte()
	}
	fn o_descend_ref(&mut self) -> Result<(), Error> {
		self.descend_ref()
	}
	fn o_ascend_ref(&mut self) {
		self.ascend_ref()
	}
	fn o_on_before_alloc_mem(&mut self, size: usize) -> Result<(), Error> {
		self.on_before_alloc_mem(size)
	}
}

/// `Input` over a trait object: one monomorphisation of every decoder serves every stack.
pub struct DynInput<'a>(pub &'a mut dyn InputObj);

impl Input for DynInput<'_> {
	fn remaining_len(&mut self) -> Result<Option<usize>, Error> {
		self.0.o_remaining_len()
	}
	fn read(&mut self, into: &mut [u8]) -> Result<(), Error> {
		self.0.o_read(into)
	}
	fn read_byte(&mut self) -> Result<u8, Error> {
		self.0.o_read_byte()
	}
	fn descend_ref(&mut self) -> Result<(), Error> {
		self.0.o_descend_ref()
	}
	fn ascend_ref(&mut self) {
		self.0.o_ascend_ref()
	}
	fn on_before_alloc_mem(&mut self, size: usize) -> Result<(), Error> {
		self.0.o_on_before_alloc_mem(size)
	}
}

/// Hand-written base input: a slice with observable position, optionally hiding its length,
/// logging every successfully served read (the C19 reference), counting hook calls.
pub struct LogInput<'a> {
	pub data: &'a [u8],
	pub pos: usize,
	pub known_len: bool,
	pub delivered: u64,
	pub reads: u64,
	pub descends: u64,
	pub ascends: u64,
	pub alloc_hooks: u64,
	/// sizes announced through `on_before_alloc_mem`, in order
	pub allocs: Vec<usize>,
}

impl<'a> LogInput<'a> {
	pub fn new(data: &'a [u8], known_len: bool) -> Self {
		LogInput { data, pos: 0, known_len, delivered: 0, reads: 0, descends: 0, ascends: 0, alloc_hooks: 0, allocs: vec![] }
	}
}

impl Input for LogInput<'_> {
	fn remaining_len(&mut self) -> Result<Option<usize>, Error> {
		Ok(if self.known_len { Some(self.data.len() - self.pos) } else { None })
	}
	fn read(&mut self, into: &mut [u8]) -> Result<(), Error> {
		if into.len() > self.data.len() - self.pos {
			return Err("LogInput: not enough data".into());
		}
		into.copy_from_slice(&self.data[self.pos..self.pos + into.len()]);
		self.pos += into.len();
		self.delivered += into.len() as u64;
		self.reads += 1;
		Ok(())
	}
	fn descend_ref(&mut self) -> Result<(), Error> {
		self.descends += 1;
		Ok(())
	}
	fn ascend_ref(&mut self) {
		self.ascends += 1;
	}
	fn on_before_alloc_mem(&mut self, size: usize) -> Result<(), Error> {
		self.alloc_hooks += 1;
		if self.allocs.len() < 4096 {
			self.allocs.push(size);
		}
		Ok(())
	}
}

/// `std::io::Read` delivering at most `schedule[i]` bytes on the i-th call (cycled; 0 = 1).
#[cfg(feature = "std")]
pub struct ChunkedReader<'a> {
	pub data: &'a [u8],
	pub pos: usize,
	pub schedule: Vec<u8>,
	pub calls: usize,
}

#[cfg(feature = "std")]
impl std::io::Read for ChunkedReader<'_> {
	fn read(&mut self, buf: &mut [u8]) -> std::io::Result<usize> {
		let max = if self.schedule.is_empty() {
			usize::MAX
		} else {
			usize::from(self.schedule[self.calls % self.schedule.len()]).max(1)
		};
		self.calls += 1;
		let n = buf.len().min(max).min(self.data.len() - self.pos);
		buf[..n].copy_from_slice(&self.data[self.pos..self.pos + n]);
		self.pos += n;
		Ok(n)
	}
}

#[derive(Clone, Copy, Debug, PartialEq, Eq, Hash)]
pub enum Wrap {
	Counted,
	Depth,
	Mem,
}

impl Wrap {
	pub fn label(self) -> &'static str {
		match self {
			Wrap::Counted => "counted",
			Wrap::Depth => "depth",
			Wrap::Mem => "mem",
		}
	}
}

/// All orderings of the three wrappers of depth 1..=3 (3 + 9 + 27 = 39).
pub fn all_stacks() -> Vec<Vec<Wrap>> {
	let w = [Wrap::Counted, Wrap::Depth, Wrap::Mem];
	let mut out = vec![];
	for a in w {
		out.push(vec![a]);
	}
	for a in w {
		for b in w {
			out.push(vec![a, b]);
		}
	}
	for a in w {
		for b in w {
			for c in w {
				out.push(vec![a, b, c]);
			}
		}
	}
	out
}

type Cont<'a> = Box<dyn FnOnce(&mut dyn InputObj) -> Result<(), Error> + 'a>;

thread_local! {
	// continuation handed to `Thunk::decode` (the depth wrapper can only be entered by decoding a type)
	static CONT: RefCell<Option<Cont<'static>>> = const { RefCell::new(None) };
}

/// A decodable type whose `decode` runs the pending continuation on its (type-erased) input.
struct Thunk;

impl Decode for Thunk {
	fn decode<I: Input>(input: &mut I) -> Result<Self, Error> {
		let k = CONT.with(|c| c.borrow_mut().take()).expect("bridge: no pending continuation");
		k(input)?;
		Ok(Thunk)
	}
}

/// Counts reported by `CountedInput` wrappers in the stack, outermost first.
#[derive(Default, Debug, Clone)]
pub struct StackReport {
	pub counted: Vec<u64>,
	pub mem_used: Vec<usize>,
}

/// Run `f` on `base` wrapped by `stack` (outermost wrapper first), all with non-binding limits.
pub fn with_stack(
	base: &mut dyn InputObj,
	stack: &[Wrap],
	report: &RefCell<StackReport>,
	f: &mut dyn FnMut(&mut dyn InputObj) -> Result<(), Error>,
) -> Result<(), Error> {
	let Some((w, rest)) = stack.split_first() else { return f(base) };
	let mut erased = DynInput(base);
	match w {
		Wrap::Counted => {
			let mut c = CountedInput::new(&mut erased);
			let r = with_stack(&mut c, rest, report, f);
			report.borrow_mut().counted.insert(0, c.count());
			r
		},
		Wrap::Mem => {
			let mut m = MemTrackingInput::new(&mut erased, usize::MAX);
			let r = with_stack(&mut m, rest, report, f);
			report.borrow_mut().mem_used.insert(0, m.used_mem());
			r
		},
		Wrap::Depth => {
			// SAFETY of the lifetime erasure: the continuation is consumed synchronously inside
			// `decode_with_depth_limit` below, before any borrowed data goes out of scope.
			let k: Cont<'_> = Box::new(move |inner: &mut dyn InputObj| with_stack(inner, rest, report, f));
			let k: Cont<'static> = unsafe { std::mem::transmute(k) };
			CONT.with(|c| *c.borrow_mut() = Some(k));
			let r = Thunk::decode_with_depth_limit(u32::MAX, &mut erased).map(|_| ());
			// if the wrapper failed before reaching the thunk, drop the stale continuation
			CONT.with(|c| c.borrow_mut().take());
			r
		},
	}
}
