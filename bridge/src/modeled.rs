//! `Modeled`: structural bridge between Rust types and the model.

use crate::codec::{Compact, OptionBool};
use psc_model::ty::*;
use std::{
	borrow::Cow,
	collections::{BTreeMap, BTreeSet, BinaryHeap, LinkedList, VecDeque},
	marker::PhantomData,
	mem::size_of,
	num::*,
	ops::{Range, RangeInclusive},
	rc::Rc,
	sync::Arc,
	time::Duration,
};

pub trait Modeled: Sized {
	/// encoding always empty
	const ZW: bool = false;
	fn ty() -> Ty;
	fn from_val(v: &Val) -> Self;
	fn to_val(&self) -> Val;

	/// Elements of a homogeneous sequence value.
	fn seq_from_val(v: &Val) -> Vec<Self> {
		match v {
			Val::Seq(items) => items.iter().map(Self::from_val).collect(),
			Val::Repeat(n, x) => (0..*n).map(|_| Self::from_val(x)).collect(),
			Val::Bytes(b) => b.iter().map(|x| Self::from_val(&Val::U(u128::from(*x)))).collect(),
			other => panic!("model: sequence expected, got {}", other.brief(60)),
		}
	}

	/// Canonical sequence value of the given elements.
	fn seq_to_val<'a, I: Iterator<Item = &'a Self>>(mut it: I, len: usize) -> Val
	where
		Self: 'a,
	{
		if Self::ZW || (std::mem::size_of::<Self>() == 0 && len > 1 << 20) {
			// (a type that is zero-sized in memory has a single value: a decoder that wrongly accepts a giant count
			// of such elements must yield a comparable value, not exhaust the harness's memory)
			let first = it.next().map(|x| x.to_val()).unwrap_or_else(|| Self::ty().default_val());
			Val::Repeat(len as u64, Box::new(first))
		} else {
			Val::Seq(it.map(|x| x.to_val()).collect())
		}
	}
}

macro_rules! impl_uint {
	($($t:ty => $b:expr),*) => {$(
		impl Modeled for $t {
			fn ty() -> Ty { Ty::U($b) }
			fn from_val(v: &Val) -> Self { v.as_u() as $t }
			fn to_val(&self) -> Val { Val::U(*self as u128) }
		}
	)*}
}
impl_uint!(u16 => 16, u32 => 32, u64 => 64, u128 => 128);

impl Modeled for u8 {
	fn ty() -> Ty {
		Ty::U(8)
	}
	fn from_val(v: &Val) -> Self {
		v.as_u() as u8
	}
	fn to_val(&self) -> Val {
		Val::U(u128::from(*self))
	}
	fn seq_from_val(v: &Val) -> Vec<Self> {
		match v {
			Val::Bytes(b) => b.clone(),
			Val::Seq(items) => items.iter().map(|x| x.as_u() as u8).collect(),
			Val::Repeat(0, _) => vec![],
			other => panic!("model: byte sequence expected, got {}", other.brief(60)),
		}
	}
	fn seq_to_val<'a, I: Iterator<Item = &'a Self>>(it: I, _len: usize) -> Val {
		Val::Bytes(it.copied().collect())
	}
}

macro_rules! impl_sint {
	($($t:ty => $b:expr),*) => {$(
		impl Modeled for $t {
			fn ty() -> Ty { Ty::I($b) }
			fn from_val(v: &Val) -> Self { v.as_i() as $t }
			fn to_val(&self) -> Val { Val::I(*self as i128) }
		}
	)*}
}
impl_sint!(i8 => 8, i16 => 16, i32 => 32, i64 => 64, i128 => 128);

macro_rules! impl_nz {
	($($t:ty, $p:ty => $e:expr, $ctor:ident, $get:ident);*) => {$(
		impl Modeled for $t {
			fn ty() -> Ty { $e }
			fn from_val(v: &Val) -> Self { <$t>::new(v.$get() as $p).expect("model: nonzero") }
			fn to_val(&self) -> Val { Val::$ctor(self.get() as _) }
		}
	)*}
}
impl_nz!(
	NonZeroU8, u8 => Ty::NzU(8), U, as_u; NonZeroU16, u16 => Ty::NzU(16), U, as_u;
	NonZeroU32, u32 => Ty::NzU(32), U, as_u; NonZeroU64, u64 => Ty::NzU(64), U, as_u;
	NonZeroU128, u128 => Ty::NzU(128), U, as_u;
	NonZeroI8, i8 => Ty::NzI(8), I, as_i; NonZeroI16, i16 => Ty::NzI(16), I, as_i;
	NonZeroI32, i32 => Ty::NzI(32), I, as_i; NonZeroI64, i64 => Ty::NzI(64), I, as_i;
	NonZeroI128, i128 => Ty::NzI(128), I, as_i
);

impl Modeled for f32 {
	fn ty() -> Ty {
		Ty::F32
	}
	fn from_val(v: &Val) -> Self {
		match v {
			Val::F32(b) => f32::from_bits(*b),
			o => panic!("model: f32 expected, got {o:?}"),
		}
	}
	fn to_val(&self) -> Val {
		Val::F32(self.to_bits())
	}
}

impl Modeled for f64 {
	fn ty() -> Ty {
		Ty::F64
	}
	fn from_val(v: &Val) -> Self {
		match v {
			Val::F64(b) => f64::from_bits(*b),
			o => panic!("model: f64 expected, got {o:?}"),
		}
	}
	fn to_val(&self) -> Val {
		Val::F64(self.to_bits())
	}
}

impl Modeled for bool {
	fn ty() -> Ty {
		Ty::Bool
	}
	fn from_val(v: &Val) -> Self {
		match v {
			Val::Bool(b) => *b,
			o => panic!("model: bool expected, got {o:?}"),
		}
	}
	fn to_val(&self) -> Val {
		Val::Bool(*self)
	}
}

impl Modeled for () {
	const ZW: bool = true;
	fn ty() -> Ty {
		Ty::Unit
	}
	fn from_val(_: &Val) -> Self {}
	fn to_val(&self) -> Val {
		Val::Unit
	}
}

impl<T> Modeled for PhantomData<T> {
	const ZW: bool = true;
	fn ty() -> Ty {
		Ty::Phantom
	}
	fn from_val(_: &Val) -> Self {
		PhantomData
	}
	fn to_val(&self) -> Val {
		Val::Unit
	}
}

/// Types usable in `#[codec(compact)]` position / inside `Compact<_>`.
pub trait CompactModel: Sized {
	fn compact_ty() -> Ty;
}
impl CompactModel for u8 {
	fn compact_ty() -> Ty {
		Ty::Compact(8)
	}
}
impl CompactModel for u16 {
	fn compact_ty() -> Ty {
		Ty::Compact(16)
	}
}
impl CompactModel for u32 {
	fn compact_ty() -> Ty {
		Ty::Compact(32)
	}
}
impl CompactModel for u64 {
	fn compact_ty() -> Ty {
		Ty::Compact(64)
	}
}
impl CompactModel for u128 {
	fn compact_ty() -> Ty {
		Ty::Compact(128)
	}
}
impl CompactModel for () {
	fn compact_ty() -> Ty {
		Ty::CompactUnit
	}
}

impl<T: CompactModel + Modeled> Modeled for Compact<T> {
	const ZW: bool = T::ZW; // only Compact<()>
	fn ty() -> Ty {
		T::compact_ty()
	}
	fn from_val(v: &Val) -> Self {
		Compact(T::from_val(v))
	}
	fn to_val(&self) -> Val {
		self.0.to_val()
	}
}

impl Modeled for OptionBool {
	fn ty() -> Ty {
		Ty::OptionBool
	}
	fn from_val(v: &Val) -> Self {
		match v {
			Val::OptBool(b) => OptionBool(*b),
			o => panic!("model: OptionBool expected, got {o:?}"),
		}
	}
	fn to_val(&self) -> Val {
		Val::OptBool(self.0)
	}
}

impl<T: Modeled> Modeled for Option<T> {
	fn ty() -> Ty {
		Ty::Option(Box::new(T::ty()))
	}
	fn from_val(v: &Val) -> Self {
		match v {
			Val::Opt(None) => None,
			Val::Opt(Some(x)) => Some(T::from_val(x)),
			o => panic!("model: Option expected, got {}", o.brief(60)),
		}
	}
	fn to_val(&self) -> Val {
		match self {
			None => Val::Opt(None),
			Some(x) => Val::some(x.to_val()),
		}
	}
}

impl<T: Modeled, E: Modeled> Modeled for Result<T, E> {
	fn ty() -> Ty {
		Ty::Result(Box::new(T::ty()), Box::new(E::ty()))
	}
	fn from_val(v: &Val) -> Self {
		match v {
			Val::Res(Ok(x)) => Ok(T::from_val(x)),
			Val::Res(Err(x)) => Err(E::from_val(x)),
			o => panic!("model: Result expected, got {}", o.brief(60)),
		}
	}
	fn to_val(&self) -> Val {
		match self {
			Ok(x) => Val::ok(x.to_val()),
			Err(x) => Val::err(x.to_val()),
		}
	}
}

fn seq_ty<T: Modeled>(kind: SeqKind) -> Ty {
	Ty::Seq { kind, elem: Box::new(T::ty()), elem_mem: size_of::<T>() }
}

impl<T: Modeled> Modeled for Vec<T> {
	fn ty() -> Ty {
		seq_ty::<T>(SeqKind::Vec)
	}
	fn from_val(v: &Val) -> Self {
		T::seq_from_val(v)
	}
	fn to_val(&self) -> Val {
		T::seq_to_val(self.iter(), self.len())
	}
}

impl<T: Modeled> Modeled for VecDeque<T> {
	fn ty() -> Ty {
		seq_ty::<T>(SeqKind::VecDeque)
	}
	fn from_val(v: &Val) -> Self {
		T::seq_from_val(v).into()
	}
	fn to_val(&self) -> Val {
		T::seq_to_val(self.iter(), self.len())
	}
}

impl<T: Modeled> Modeled for LinkedList<T> {
	fn ty() -> Ty {
		seq_ty::<T>(SeqKind::LinkedList)
	}
	fn from_val(v: &Val) -> Self {
		T::seq_from_val(v).into_iter().collect()
	}
	fn to_val(&self) -> Val {
		T::seq_to_val(self.iter(), self.len())
	}
}

impl<T: Modeled + Ord> Modeled for BinaryHeap<T> {
	fn ty() -> Ty {
		seq_ty::<T>(SeqKind::BinaryHeap)
	}
	fn from_val(v: &Val) -> Self {
		T::seq_from_val(v).into()
	}
	/// the heap's own iteration order (compare after `normalize`)
	fn to_val(&self) -> Val {
		T::seq_to_val(self.iter(), self.len())
	}
}

impl<T: Modeled + Ord> Modeled for BTreeSet<T> {
	fn ty() -> Ty {
		seq_ty::<T>(SeqKind::BTreeSet)
	}
	fn from_val(v: &Val) -> Self {
		T::seq_from_val(v).into_iter().collect()
	}
	fn to_val(&self) -> Val {
		T::seq_to_val(self.iter(), self.len())
	}
}

impl<K: Modeled + Ord, V: Modeled> Modeled for BTreeMap<K, V> {
	fn ty() -> Ty {
		Ty::Map { k: Box::new(K::ty()), v: Box::new(V::ty()), entry_mem: size_of::<(K, V)>() }
	}
	fn from_val(v: &Val) -> Self {
		match v {
			Val::Map(m) => m.iter().map(|(a, b)| (K::from_val(a), V::from_val(b))).collect(),
			o => panic!("model: Map expected, got {}", o.brief(60)),
		}
	}
	fn to_val(&self) -> Val {
		Val::Map(self.iter().map(|(a, b)| (a.to_val(), b.to_val())).collect())
	}
}

impl<T: Modeled, const N: usize> Modeled for [T; N] {
	const ZW: bool = N == 0 || T::ZW;
	fn ty() -> Ty {
		Ty::Array(Box::new(T::ty()), N)
	}
	fn from_val(v: &Val) -> Self {
		let items = T::seq_from_val(v);
		assert_eq!(items.len(), N, "model: array arity");
		match items.try_into() {
			Ok(a) => a,
			Err(_) => unreachable!(),
		}
	}
	fn to_val(&self) -> Val {
		T::seq_to_val(self.iter(), N)
	}
}

impl Modeled for String {
	fn ty() -> Ty {
		Ty::Str
	}
	fn from_val(v: &Val) -> Self {
		match v {
			Val::Bytes(b) => String::from_utf8(b.clone()).expect("model: generator produced invalid UTF-8"),
			o => panic!("model: string expected, got {}", o.brief(60)),
		}
	}
	fn to_val(&self) -> Val {
		Val::Bytes(self.as_bytes().to_vec())
	}
}

macro_rules! impl_holder {
	($($h:ident => $k:ident),*) => {$(
		impl<T: Modeled> Modeled for $h<T> {
			const ZW: bool = T::ZW;
			fn ty() -> Ty {
				Ty::Holder { kind: HolderKind::$k, inner: Box::new(T::ty()), mem: size_of::<T>() }
			}
			fn from_val(v: &Val) -> Self { $h::new(T::from_val(v)) }
			fn to_val(&self) -> Val { (**self).to_val() }
		}
	)*}
}
impl_holder!(Box => Box, Rc => Rc, Arc => Arc);

impl<T: Modeled + Clone> Modeled for Cow<'static, T> {
	const ZW: bool = T::ZW;
	fn ty() -> Ty {
		Ty::Holder { kind: HolderKind::Ref, inner: Box::new(T::ty()), mem: size_of::<T>() }
	}
	fn from_val(v: &Val) -> Self {
		Cow::Owned(T::from_val(v))
	}
	fn to_val(&self) -> Val {
		(**self).to_val()
	}
}

impl<T: Modeled + Clone> Modeled for Cow<'static, [T]> {
	fn ty() -> Ty {
		seq_ty::<T>(SeqKind::Vec)
	}
	fn from_val(v: &Val) -> Self {
		Cow::Owned(T::seq_from_val(v))
	}
	fn to_val(&self) -> Val {
		T::seq_to_val(self.iter(), self.len())
	}
}

impl Modeled for Cow<'static, str> {
	fn ty() -> Ty {
		Ty::Str
	}
	fn from_val(v: &Val) -> Self {
		Cow::Owned(String::from_val(v))
	}
	fn to_val(&self) -> Val {
		Val::Bytes(self.as_bytes().to_vec())
	}
}

impl Modeled for Duration {
	fn ty() -> Ty {
		Ty::Duration
	}
	fn from_val(v: &Val) -> Self {
		let xs = v.as_tuple();
		Duration::new(xs[0].as_u() as u64, xs[1].as_u() as u32)
	}
	fn to_val(&self) -> Val {
		Val::Tuple(vec![Val::U(u128::from(self.as_secs())), Val::U(u128::from(self.subsec_nanos()))])
	}
}

impl<T: Modeled> Modeled for Range<T> {
	fn ty() -> Ty {
		Ty::Range(Box::new(T::ty()))
	}
	fn from_val(v: &Val) -> Self {
		let xs = v.as_tuple();
		T::from_val(&xs[0])..T::from_val(&xs[1])
	}
	fn to_val(&self) -> Val {
		Val::Tuple(vec![self.start.to_val(), self.end.to_val()])
	}
}

impl<T: Modeled> Modeled for RangeInclusive<T> {
	fn ty() -> Ty {
		Ty::RangeIncl(Box::new(T::ty()))
	}
	fn from_val(v: &Val) -> Self {
		let xs = v.as_tuple();
		T::from_val(&xs[0])..=T::from_val(&xs[1])
	}
	fn to_val(&self) -> Val {
		Val::Tuple(vec![self.start().to_val(), self.end().to_val()])
	}
}

macro_rules! impl_tuple {
	($( ($($n:ident $i:tt),+) )*) => {$(
		impl<$($n: Modeled),+> Modeled for ($($n,)+) {
			const ZW: bool = true $(&& $n::ZW)+;
			fn ty() -> Ty { Ty::Tuple(vec![$($n::ty()),+]) }
			fn from_val(v: &Val) -> Self {
				let xs = v.as_tuple();
				($($n::from_val(&xs[$i]),)+)
			}
			fn to_val(&self) -> Val { Val::Tuple(vec![$(self.$i.to_val()),+]) }
		}
	)*}
}
impl_tuple! {
	(A 0)
	(A 0, B 1)
	(A 0, B 1, C 2)
	(A 0, B 1, C 2, D 3)
	(A 0, B 1, C 2, D 3, E 4)
	(A 0, B 1, C 2, D 3, E 4, F 5)
	(A 0, B 1, C 2, D 3, E 4, F 5, G 6)
	(A 0, B 1, C 2, D 3, E 4, F 5, G 6, H 7)
	(A 0, B 1, C 2, D 3, E 4, F 5, G 6, H 7, I 8)
	(A 0, B 1, C 2, D 3, E 4, F 5, G 6, H 7, I 8, J 9)
	(A 0, B 1, C 2, D 3, E 4, F 5, G 6, H 7, I 8, J 9, K 10)
	(A 0, B 1, C 2, D 3, E 4, F 5, G 6, H 7, I 8, J 9, K 10, L 11)
	(A 0, B 1, C 2, D 3, E 4, F 5, G 6, H 7, I 8, J 9, K 10, L 11, M 12)
	(A 0, B 1, C 2, D 3, E 4, F 5, G 6, H 7, I 8, J 9, K 10, L 11, M 12, N 13)
	(A 0, B 1, C 2, D 3, E 4, F 5, G 6, H 7, I 8, J 9, K 10, L 11, M 12, N 13, O 14)
	(A 0, B 1, C 2, D 3, E 4, F 5, G 6, H 7, I 8, J 9, K 10, L 11, M 12, N 13, O 14, P 15)
	(A 0, B 1, C 2, D 3, E 4, F 5, G 6, H 7, I 8, J 9, K 10, L 11, M 12, N 13, O 14, P 15, Q 16)
	(A 0, B 1, C 2, D 3, E 4, F 5, G 6, H 7, I 8, J 9, K 10, L 11, M 12, N 13, O 14, P 15, Q 16, R 17)
}

#[cfg(feature = "bit-vec")]
mod bits {
	use super::*;
	use bitvec::{boxed::BitBox, order::{BitOrder, Lsb0, Msb0}, store::BitStore, vec::BitVec};

	pub trait OrderModel: BitOrder {
		const MSB0: bool;
	}
	impl OrderModel for Lsb0 {
		const MSB0: bool = false;
	}
	impl OrderModel for Msb0 {
		const MSB0: bool = true;
	}

	impl<S: BitStore, O: OrderModel> Modeled for BitVec<S, O> {
		fn ty() -> Ty {
			Ty::Bits { store: (size_of::<S>() * 8) as u32, msb0: O::MSB0 }
		}
		fn from_val(v: &Val) -> Self {
			match v {
				Val::Bits(b) => {
					// Two vectors with the same bits must be indistinguishable to the codec, whatever their layout:
					// half of the values (chosen by their content) start at a non-zero head offset inside the first
					// storage word — including vectors lying strictly inside one word — and all keep stale set bits
					// in the storage beyond `len`.
					let n = b.len();
					let width = size_of::<S>() * 8;
					let ones = b.iter().filter(|x| **x).count();
					let head = if (n + ones) % 2 == 0 { 0 } else { 1 + (n * 7 + ones * 3) % (width - 1) };
					let mut v: Self = if head == 0 {
						b.iter().copied().collect()
					} else {
						let padded: Self = std::iter::repeat(true).take(head).chain(b.iter().copied()).collect();
						Self::from_bitslice(&padded[head..])
					};
					for _ in 0..5 {
						v.push(true);
					}
					v.truncate(n);
					debug_assert_eq!(v.len(), n);
					v
				},
				o => panic!("model: bits expected, got {}", o.brief(60)),
			}
		}
		fn to_val(&self) -> Val {
			Val::Bits(self.iter().by_vals().collect())
		}
	}

	impl<S: BitStore, O: OrderModel> Modeled for BitBox<S, O> {
		fn ty() -> Ty {
			<BitVec<S, O> as Modeled>::ty()
		}
		fn from_val(v: &Val) -> Self {
			<BitVec<S, O> as Modeled>::from_val(v).into_boxed_bitslice()
		}
		fn to_val(&self) -> Val {
			Val::Bits(self.iter().by_vals().collect())
		}
	}
}
#[cfg(feature = "bit-vec")]
pub use bits::OrderModel;

#[cfg(feature = "bytes")]
impl Modeled for bytes::Bytes {
	fn ty() -> Ty {
		Ty::Seq { kind: SeqKind::Bytes, elem: Box::new(Ty::U(8)), elem_mem: 1 }
	}
	fn from_val(v: &Val) -> Self {
		bytes::Bytes::from(u8::seq_from_val(v))
	}
	fn to_val(&self) -> Val {
		Val::Bytes(self.to_vec())
	}
}

#[cfg(feature = "generic-array")]
impl<T: Modeled, L: generic_array::ArrayLength<T>> Modeled for generic_array::GenericArray<T, L> {
	const ZW: bool = <L as generic_array::typenum::Unsigned>::USIZE == 0 || T::ZW;
	fn ty() -> Ty {
		Ty::Array(Box::new(T::ty()), L::to_usize())
	}
	fn from_val(v: &Val) -> Self {
		generic_array::GenericArray::from_exact_iter(T::seq_from_val(v)).expect("model: generic array arity")
	}
	fn to_val(&self) -> Val {
		T::seq_to_val(self.iter(), L::to_usize())
	}
}
