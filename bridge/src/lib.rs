pub fn placeholder() {}
