//! psc-bridge: maps concrete Rust types of the crate under test onto the model (`Ty`/`Val`),
//! provides the type zoo and the type-erased input stacks. The real crate is only ever called on
//! concrete Rust types; the model only ever sees `Ty`/`Val`.

pub use parity_scale_codec as codec;
pub use psc_model as model;

pub mod derived;
pub mod input;
pub mod modeled;
pub mod wrappers;
pub mod zoo;

pub use modeled::{CompactModel, Modeled};
