//! The type zoo: concrete instantiations with function pointers over `Val`/bytes so that checks are
//! written once, dynamically, against the table.

use crate::{
	codec::{Decode, DecodeAll, DecodeLimit, DecodeWithMemTracking, Encode, Error, Input, MemTrackingInput, Output},
	input::*,
	modeled::Modeled,
};
use psc_model::ty::*;

#[derive(Debug, Clone)]
pub struct EncOut {
	pub encode: Vec<u8>,
	pub encode_to_vec: Vec<u8>,
	/// `encode_to` into an `io::Write` sink (std) or a second `Vec<u8>` (no_std)
	pub io_sink: Vec<u8>,
	pub io_calls: usize,
	/// `encode_to(&mut dyn Output)` on a hand-written `Output` overriding only `write`
	pub dyn_out: Vec<u8>,
	pub dyn_calls: usize,
	pub using_encoded: Vec<u8>,
	pub encoded_size: usize,
	pub size_hint: usize,
	/// model rendering of the value that was actually encoded (heap iteration order etc.)
	pub as_model: Val,
}

/// Hand-written output that is *not* `io::Write` and overrides only `write`.
pub struct DynSink {
	pub buf: Vec<u8>,
	pub calls: usize,
}

impl Output for DynSink {
	fn write(&mut self, bytes: &[u8]) {
		self.calls += 1;
		self.buf.extend_from_slice(bytes);
	}
}

#[cfg(feature = "std")]
pub struct RecWriter {
	pub buf: Vec<u8>,
	pub calls: usize,
}

#[cfg(feature = "std")]
impl std::io::Write for RecWriter {
	fn write(&mut self, b: &[u8]) -> std::io::Result<usize> {
		self.calls += 1;
		// accept at most 7 bytes per call: `write_all` must loop
		let n = b.len().min(7);
		self.buf.extend_from_slice(&b[..n]);
		Ok(n)
	}
	fn flush(&mut self) -> std::io::Result<()> {
		Ok(())
	}
}

pub fn encode_all<T: Encode + Modeled>(v: &Val) -> EncOut {
	let x = T::from_val(v);
	let encode = x.encode();
	let mut encode_to_vec = Vec::new();
	x.encode_to(&mut encode_to_vec);
	#[cfg(feature = "std")]
	let (io_sink, io_calls) = {
		let mut w = RecWriter { buf: vec![], calls: 0 };
		x.encode_to(&mut w);
		(w.buf, w.calls)
	};
	#[cfg(not(feature = "std"))]
	let (io_sink, io_calls) = {
		let mut w = vec![0xAAu8];
		x.encode_to(&mut w);
		(w[1..].to_vec(), 0)
	};
	let mut sink = DynSink { buf: vec![], calls: 0 };
	{
		let d: &mut dyn Output = &mut sink;
		x.encode_to(d);
	}
	let using_encoded = x.using_encoded(|b| b.to_vec());
	EncOut {
		encode,
		encode_to_vec,
		io_sink,
		io_calls,
		dyn_out: sink.buf,
		dyn_calls: sink.calls,
		using_encoded,
		encoded_size: x.encoded_size(),
		size_hint: x.size_hint(),
		as_model: x.to_val(),
	}
}

pub fn encode_one<T: Encode + Modeled>(v: &Val) -> (Vec<u8>, Val) {
	let x = T::from_val(v);
	(x.encode(), x.to_val())
}

fn err_text(e: Error) -> String {
	e.to_string()
}

pub type DecRes = Result<Val, String>;

pub fn decode_slice<T: Decode + Modeled>(data: &[u8]) -> (DecRes, usize) {
	let mut input = data;
	let r = T::decode(&mut input).map(|x| x.to_val()).map_err(err_text);
	(r, data.len() - input.len())
}

pub fn decode_dyn<T: Decode + Modeled>(input: &mut dyn InputObj) -> DecRes {
	T::decode(&mut DynInput(input)).map(|x| x.to_val()).map_err(err_text)
}

#[cfg(feature = "std")]
pub fn decode_io<T: Decode + Modeled>(data: &[u8], schedule: &[u8]) -> (DecRes, usize) {
	let mut r = crate::codec::IoReader(ChunkedReader { data, pos: 0, schedule: schedule.to_vec(), calls: 0 });
	let res = T::decode(&mut r).map(|x| x.to_val()).map_err(err_text);
	(res, r.0.pos)
}

/// Reads whatever is left of the input (observes the cursor position of opaque inputs).
pub struct Rest(pub Vec<u8>);

impl Decode for Rest {
	fn decode<I: Input>(input: &mut I) -> Result<Self, Error> {
		let mut out = vec![];
		while let Ok(b) = input.read_byte() {
			out.push(b);
		}
		Ok(Rest(out))
	}
}

#[cfg(feature = "bytes")]
pub fn decode_bytes<T: Decode + Modeled>(data: &[u8]) -> (DecRes, Option<Vec<u8>>) {
	let b = bytes::Bytes::from(data.to_vec());
	match crate::codec::decode_from_bytes::<(T, Rest)>(b) {
		Ok((x, rest)) => (Ok(x.to_val()), Some(rest.0)),
		Err(e) => (Err(err_text(e)), None),
	}
}

pub fn skip_slice<T: Decode>(data: &[u8]) -> (bool, usize) {
	let mut input = data;
	let ok = T::skip(&mut input).is_ok();
	(ok, data.len() - input.len())
}

pub fn depth_slice<T: Decode + Modeled>(data: &[u8], limit: u32) -> (DecRes, usize) {
	let mut input = data;
	let r = T::decode_with_depth_limit(limit, &mut input).map(|x| x.to_val()).map_err(err_text);
	(r, data.len() - input.len())
}

/// Depth-limited decode that drops the value without rendering it (stack-safety runs).
pub fn depth_slice_ok<T: Decode>(data: &[u8], limit: u32) -> bool {
	let mut input = data;
	T::decode_with_depth_limit(limit, &mut input).is_ok()
}

pub fn decode_all_slice<T: Decode + Modeled>(data: &[u8]) -> DecRes {
	let mut input = data;
	T::decode_all(&mut input).map(|x| x.to_val()).map_err(err_text)
}

pub fn decode_all_depth_slice<T: Decode + Modeled>(data: &[u8], limit: u32) -> DecRes {
	let mut input = data;
	T::decode_all_with_depth_limit(limit, &mut input).map(|x| x.to_val()).map_err(err_text)
}

pub fn decode_len<T: crate::codec::DecodeLength>(data: &[u8]) -> Option<usize> {
	<T as crate::codec::DecodeLength>::len(data).ok()
}

pub fn counted_slice<T: Decode>(data: &[u8]) -> (bool, u64, usize) {
	let mut input = data;
	let (ok, count) = {
		let mut c = crate::codec::CountedInput::new(&mut input);
		let r = T::decode(&mut c);
		(r.is_ok(), c.count())
	};
	(ok, count, data.len() - input.len())
}

/// `Decode::skip` (instead of `decode`) through a `CountedInput` over a slice.
pub fn counted_skip_slice<T: Decode>(data: &[u8]) -> (bool, u64, usize) {
	let mut input = data;
	let (ok, count) = {
		let mut c = crate::codec::CountedInput::new(&mut input);
		let r = T::skip(&mut c);
		(r.is_ok(), c.count())
	};
	(ok, count, data.len() - input.len())
}

#[derive(Debug, Clone)]
pub struct MemOut {
	pub result: DecRes,
	pub used: usize,
	pub consumed: usize,
}

pub fn mem_slice<T: DecodeWithMemTracking + Modeled>(data: &[u8], limit: usize) -> MemOut {
	let mut input = data;
	let (result, used) = {
		let mut m = MemTrackingInput::new(&mut input, limit);
		let r = T::decode(&mut m).map(|x| x.to_val()).map_err(err_text);
		(r, m.used_mem())
	};
	MemOut { result, used, consumed: data.len() - input.len() }
}

/// `decode_with_mem_limit` entry point (the extension-trait form).
pub fn mem_limit_slice<T: DecodeWithMemTracking + Modeled>(data: &[u8], limit: usize) -> (DecRes, usize) {
	use crate::codec::DecodeWithMemLimit;
	let mut input = data;
	let r = T::decode_with_mem_limit(&mut input, limit).map(|x| x.to_val()).map_err(err_text);
	(r, data.len() - input.len())
}

#[derive(Clone, Copy, Debug, PartialEq, Eq)]
pub enum Phase {
	Start,
	Decoded,
	Dropped,
}

/// Decode (slice / unknown-length / shared-buffer input) and drop, signalling phases to a probe
/// so that an allocator monitor can attribute requests to the decode call alone.
/// Returns (ok, consumed-or-0).
pub fn decode_probe<T: Decode>(data: &[u8], kind: u8, probe: &mut dyn FnMut(Phase)) -> bool {
	match kind {
		0 => {
			let mut input = data;
			probe(Phase::Start);
			let r = T::decode(&mut input);
			probe(Phase::Decoded);
			let ok = r.is_ok();
			drop(r);
			probe(Phase::Dropped);
			ok
		},
		1 => {
			let mut input = LogInput::new(data, false);
			probe(Phase::Start);
			let r = T::decode(&mut input);
			probe(Phase::Decoded);
			let ok = r.is_ok();
			drop(r);
			probe(Phase::Dropped);
			ok
		},
		_ => {
			#[cfg(feature = "bytes")]
			{
				let b = bytes::Bytes::from(data.to_vec());
				probe(Phase::Start);
				let r = crate::codec::decode_from_bytes::<T>(b);
				probe(Phase::Decoded);
				let ok = r.is_ok();
				drop(r);
				probe(Phase::Dropped);
				ok
			}
			#[cfg(not(feature = "bytes"))]
			{
				let _ = probe;
				false
			}
		},
	}
}

#[derive(Clone)]
pub struct Entry {
	pub name: &'static str,
	pub ty: Ty,
	pub mem_size: usize,
	pub encode: Option<fn(&Val) -> (Vec<u8>, Val)>,
	pub encode_all: Option<fn(&Val) -> EncOut>,
	pub decode_slice: Option<fn(&[u8]) -> (DecRes, usize)>,
	pub decode_dyn: Option<fn(&mut dyn InputObj) -> DecRes>,
	#[cfg(feature = "std")]
	pub decode_io: Option<fn(&[u8], &[u8]) -> (DecRes, usize)>,
	#[cfg(feature = "bytes")]
	pub decode_bytes: Option<fn(&[u8]) -> (DecRes, Option<Vec<u8>>)>,
	pub skip: Option<fn(&[u8]) -> (bool, usize)>,
	pub fixed_size: Option<fn() -> Option<usize>>,
	pub depth: Option<fn(&[u8], u32) -> (DecRes, usize)>,
	pub depth_ok: Option<fn(&[u8], u32) -> bool>,
	pub decode_all: Option<fn(&[u8]) -> DecRes>,
	pub decode_all_depth: Option<fn(&[u8], u32) -> DecRes>,
	pub probe: Option<fn(&[u8], u8, &mut dyn FnMut(Phase)) -> bool>,
	pub mem: Option<fn(&[u8], usize) -> MemOut>,
	pub mem_limit: Option<fn(&[u8], usize) -> (DecRes, usize)>,
	pub mel: Option<fn() -> usize>,
	pub cel: bool,
	/// `DecodeLength::len`
	pub decode_len: Option<fn(&[u8]) -> Option<usize>>,
	/// decode through `CountedInput` over a slice: (ok, count(), bytes consumed from the slice)
	pub counted: Option<fn(&[u8]) -> (bool, u64, usize)>,
	pub counted_skip: Option<fn(&[u8]) -> (bool, u64, usize)>,
}

impl Entry {
	pub fn new<T: Modeled>(name: &'static str) -> Entry {
		Entry {
			name,
			ty: T::ty(),
			mem_size: std::mem::size_of::<T>(),
			encode: None,
			encode_all: None,
			decode_slice: None,
			decode_dyn: None,
			#[cfg(feature = "std")]
			decode_io: None,
			#[cfg(feature = "bytes")]
			decode_bytes: None,
			skip: None,
			fixed_size: None,
			depth: None,
			depth_ok: None,
			decode_all: None,
			decode_all_depth: None,
			probe: None,
			mem: None,
			mem_limit: None,
			mel: None,
			cel: false,
			decode_len: None,
			counted: None,
			counted_skip: None,
		}
	}
	pub fn enc<T: Modeled + Encode>(mut self) -> Entry {
		self.encode = Some(encode_one::<T>);
		self.encode_all = Some(encode_all::<T>);
		self
	}
	pub fn dec<T: Modeled + Decode>(mut self) -> Entry {
		self.decode_slice = Some(decode_slice::<T>);
		self.decode_dyn = Some(decode_dyn::<T>);
		#[cfg(feature = "std")]
		{
			self.decode_io = Some(decode_io::<T>);
		}
		#[cfg(feature = "bytes")]
		{
			self.decode_bytes = Some(decode_bytes::<T>);
		}
		self.skip = Some(skip_slice::<T>);
		self.fixed_size = Some(<T as Decode>::encoded_fixed_size);
		self.depth = Some(depth_slice::<T>);
		self.depth_ok = Some(depth_slice_ok::<T>);
		self.decode_all = Some(decode_all_slice::<T>);
		self.decode_all_depth = Some(decode_all_depth_slice::<T>);
		self.probe = Some(decode_probe::<T>);
		self.counted = Some(counted_slice::<T>);
		self.counted_skip = Some(counted_skip_slice::<T>);
		self
	}
	pub fn len<T: crate::codec::DecodeLength>(mut self) -> Entry {
		self.decode_len = Some(decode_len::<T>);
		self
	}
	pub fn mem<T: Modeled + DecodeWithMemTracking>(mut self) -> Entry {
		self.mem = Some(mem_slice::<T>);
		self.mem_limit = Some(mem_limit_slice::<T>);
		self
	}
	#[cfg(feature = "max-encoded-len")]
	pub fn mel<T: crate::codec::MaxEncodedLen>(mut self) -> Entry {
		self.mel = Some(<T as crate::codec::MaxEncodedLen>::max_encoded_len);
		self
	}
	#[cfg(feature = "max-encoded-len")]
	pub fn cel<T: crate::codec::ConstEncodedLen>(mut self) -> Entry {
		self.mel = Some(<T as crate::codec::MaxEncodedLen>::max_encoded_len);
		self.cel = true;
		self
	}
	pub fn is_recursive(&self) -> bool {
		self.ty.is_recursive()
	}
}

macro_rules! add {
	($v:ident; full: $($t:ty),* $(,)?) => {$(
		$v.push(Entry::new::<$t>(stringify!($t)).enc::<$t>().dec::<$t>().mem::<$t>());
	)*};
	($v:ident; codec: $($t:ty),* $(,)?) => {$(
		$v.push(Entry::new::<$t>(stringify!($t)).enc::<$t>().dec::<$t>());
	)*};
	($v:ident; enc: $($t:ty),* $(,)?) => {$(
		$v.push(Entry::new::<$t>(stringify!($t)).enc::<$t>());
	)*};
}

macro_rules! mark_len {
	($v:ident; $($t:ty),* $(,)?) => {$(
		{
			let name = stringify!($t);
			let e = $v.iter_mut().find(|e| e.name == name).unwrap_or_else(|| panic!("zoo: no entry {name}"));
			*e = e.clone().len::<$t>();
		}
	)*};
}

/// Compile-time probe "is this type marked ConstEncodedLen?" (inherent method wins over the trait's
/// fallback when the bound holds), so that the mark is *observed* for every MaxEncodedLen zoo type
/// instead of being taken from a hand-written list.
#[cfg(feature = "max-encoded-len")]
pub struct CelProbe<T>(pub std::marker::PhantomData<T>);
#[cfg(feature = "max-encoded-len")]
pub trait CelFallback {
	fn is_cel(&self) -> bool {
		false
	}
}
#[cfg(feature = "max-encoded-len")]
impl<T> CelFallback for CelProbe<T> {}
#[cfg(feature = "max-encoded-len")]
impl<T: crate::codec::ConstEncodedLen> CelProbe<T> {
	pub fn is_cel(&self) -> bool {
		true
	}
}

#[cfg(feature = "max-encoded-len")]
macro_rules! mark {
	($v:ident; mel: $($t:ty),* $(,)?) => {$(
		{
			let name = stringify!($t);
			let e = $v.iter_mut().find(|e| e.name == name).unwrap_or_else(|| panic!("zoo: no entry {name}"));
			*e = e.clone().mel::<$t>();
			#[allow(unused_imports)]
			use CelFallback as _;
			e.cel = CelProbe::<$t>(std::marker::PhantomData).is_cel();
		}
	)*};
	($v:ident; cel: $($t:ty),* $(,)?) => {$(
		{
			let name = stringify!($t);
			let e = $v.iter_mut().find(|e| e.name == name).unwrap_or_else(|| panic!("zoo: no entry {name}"));
			*e = e.clone().cel::<$t>();
		}
	)*};
}

/// Build the zoo. Every entry's `name` is the Rust type expression.
pub fn zoo() -> Vec<Entry> {
	use crate::{codec::{Compact, OptionBool}, wrappers::*};
	use std::{
		borrow::Cow,
		collections::{BTreeMap, BTreeSet, BinaryHeap, LinkedList, VecDeque},
		marker::PhantomData,
		num::*,
		ops::{Range, RangeInclusive},
		rc::Rc,
		sync::Arc,
		time::Duration,
	};
	let mut v: Vec<Entry> = Vec::new();

	// primitives
	add!(v; full: u8, u16, u32, u64, u128, i8, i16, i32, i64, i128, f32, f64, bool, OptionBool, Duration);
	add!(v; codec: ());
	add!(v; full: Compact<u8>, Compact<u16>, Compact<u32>, Compact<u64>, Compact<u128>, Compact<()>);
	add!(v; full: NonZeroU8, NonZeroU16, NonZeroU32, NonZeroU64, NonZeroU128,
		NonZeroI8, NonZeroI16, NonZeroI32, NonZeroI64, NonZeroI128);
	add!(v; full: PhantomData<u32>, Range<u32>, RangeInclusive<i16>, Range<Compact<u64>>);

	// option / result nests
	add!(v; full: Option<u8>, Option<bool>, Option<Option<u32>>, Option<OptionBool>, Result<u8, bool>,
		Result<Option<u16>, Result<bool, u64>>, Option<String>, Result<Vec<u8>, String>, Option<Compact<u32>>,
		Option<NonZeroU16>, Result<(), ()>, Option<()>);

	// sequences over primitive, zero-sized, string and composite elements
	add!(v; full: Vec<u8>, Vec<u16>, Vec<u32>, Vec<u64>, Vec<u128>, Vec<i8>, Vec<i16>, Vec<i32>, Vec<i64>, Vec<i128>,
		Vec<f32>, Vec<f64>, Vec<bool>, Vec<String>, Vec<Option<u16>>, Vec<(u8, u32)>, Vec<Vec<u8>>, Vec<Vec<Vec<u16>>>,
		Vec<Compact<u32>>, Vec<[u8; 3]>, Vec<Option<Box<[String; 2]>>>, Vec<OptionBool>, Vec<NonZeroU32>,
		Vec<Result<u8, String>>, Vec<BTreeMap<u8, Vec<u16>>>);
	add!(v; codec: Vec<()>, Vec<PhantomData<u8>>, Vec<[u8; 0]>, Vec<((), ())>);
	// large in-memory elements (a count-driven reservation scales with the element size)
	add!(v; full: Vec<[u64; 32]>, Vec<[u8; 1024]>, Vec<[u64; 512]>, VecDeque<(u64, u64)>, Vec<(u128, u128, u128)>, Vec<Vec<[u8; 1024]>>,
		BinaryHeap<[u32; 16]>, Vec<Option<[u64; 16]>>);
	add!(v; full: VecDeque<u8>, VecDeque<u32>, VecDeque<i64>, VecDeque<String>, VecDeque<(u8, u32)>, VecDeque<Option<u16>>,
		LinkedList<u8>, LinkedList<u32>, LinkedList<String>, LinkedList<Vec<u8>>,
		BinaryHeap<u8>, BinaryHeap<u32>, BinaryHeap<i16>, BinaryHeap<(u8, u16)>,
		BTreeSet<u8>, BTreeSet<u32>, BTreeSet<String>, BTreeSet<(u16, i8)>, BTreeSet<Vec<u8>>,
		BTreeMap<u8, u8>, BTreeMap<u32, String>, BTreeMap<String, Vec<u16>>, BTreeMap<(u8, u8), Option<u32>>,
		BTreeMap<i64, BTreeMap<u8, bool>>, BTreeMap<u16, BTreeSet<u8>>);
	add!(v; codec: VecDeque<()>, LinkedList<()>, BTreeSet<()>);

	// wrappers of sum types (bounded but not constant length)
	add!(v; full: Box<Option<u8>>, Box<Compact<u64>>, Range<Option<u16>>, RangeInclusive<Result<u8, u32>>, (u8, Box<Compact<u16>>),
		[Range<Compact<u8>>; 3], Box<Result<bool, u64>>, [Box<Option<u16>>; 2], PhantomData<Option<u8>>);

	// less travelled combinations (rarely used impls, deeper nests, edge shapes)
	add!(v; full: Vec<[u8; 32]>, VecDeque<Vec<u8>>, Option<Option<Option<bool>>>, Result<Result<u8, u16>, Vec<u8>>,
		BTreeMap<String, BTreeMap<u8, String>>, LinkedList<Option<u16>>, BinaryHeap<String>, BinaryHeap<Vec<u8>>, BTreeSet<Option<u8>>,
		Rc<Vec<String>>, Arc<BTreeMap<u8, u8>>, Vec<Rc<u32>>, Vec<Arc<String>>, VecDeque<Box<u16>>, LinkedList<Rc<u8>>,
		Range<u128>, RangeInclusive<u8>, Range<i64>, Vec<Duration>, Option<Duration>, [Duration; 2], Vec<Range<u16>>,
		(Duration, Range<u8>, OptionBool), Vec<NonZeroI64>, [NonZeroU8; 4], Option<NonZeroU128>, BTreeMap<NonZeroU8, OptionBool>,
		Vec<(Compact<u8>, Compact<u64>)>, BTreeMap<u8, Compact<u128>>, Option<Compact<()>>, Vec<Compact<()>>,
		LinkedList<(u8, String)>, BTreeSet<(u8, Vec<u8>)>, BTreeMap<Vec<u8>, Vec<String>>, VecDeque<VecDeque<u8>>,
		Box<Rc<Arc<String>>>, Option<Rc<Vec<u16>>>, (Box<u8>, Rc<u16>, Arc<u32>), Cow<'static, Vec<u8>>, Cow<'static, (u8, u16)>,
		[u32; 2048], [u64; 4096], Box<[u8; 100000]>, [Vec<u8>; 8], [Option<String>; 4], [[[u8; 2]; 2]; 2], [(); 0], [String; 0]);

	// arrays
	add!(v; full: [u8; 0], [u8; 1], [u8; 2], [u8; 3], [u8; 7], [u8; 8], [u8; 31], [u8; 32], [u8; 33], [u8; 64], [u8; 100],
		[u8; 2048], [u16; 3], [u32; 8], [u64; 2], [u128; 3], [i8; 5], [i16; 2], [i32; 7], [i64; 1], [i128; 2], [f32; 3], [f64; 2],
		[bool; 3], [String; 2], [Option<u8>; 3], [Vec<u16>; 2], [(u8, u16); 3], [[u8; 2]; 3], [Compact<u32>; 4], [(); 5],
		[Box<u32>; 3], [u16; 100]);

	// tuples of every arity
	add!(v; full: (u8,), (u8, u16), (u8, u16, u32), (bool, String, u64, i8), (u8, u8, u8, u8, u8),
		(u8, u16, u32, u64, u128, i8), (u8, u16, u32, u64, u128, i8, i16), (u8, u16, u32, u64, u128, i8, i16, i32),
		(u8, u16, u32, u64, u128, i8, i16, i32, i64), (u8, u16, u32, u64, u128, i8, i16, i32, i64, i128),
		(u8, u16, u32, u64, u128, i8, i16, i32, i64, i128, bool),
		(u8, u16, u32, u64, u128, i8, i16, i32, i64, i128, bool, u8),
		(u8, u16, u32, u64, u128, i8, i16, i32, i64, i128, bool, u8, u16),
		(u8, u16, u32, u64, u128, i8, i16, i32, i64, i128, bool, u8, u16, u32),
		(u8, u16, u32, u64, u128, i8, i16, i32, i64, i128, bool, u8, u16, u32, u64),
		(u8, u16, u32, u64, u128, i8, i16, i32, i64, i128, bool, u8, u16, u32, u64, u8),
		(u8, u16, u32, u64, u128, i8, i16, i32, i64, i128, bool, u8, u16, u32, u64, u8, u16),
		(u8, u16, u32, u64, u128, i8, i16, i32, i64, i128, bool, Vec<u8>, u16, Option<u32>, u64, u8, String, Compact<u64>),
		(Vec<u8>, String), (Compact<u8>, Compact<u128>), (Vec<u32>,), (Compact<u64>,), (String,));

	// tuples of every arity 1..=18 led by a collection (DecodeLength)
	add!(v; full: (Vec<u16>,), (Vec<u16>, u8), (Vec<u16>, u8, u8), (Vec<u16>, u8, u8, u8), (Vec<u16>, u8, u8, u8, u8), (Vec<u16>, u8, u8, u8, u8, u8), (Vec<u16>, u8, u8, u8, u8, u8, u8), (Vec<u16>, u8, u8, u8, u8, u8, u8, u8), (Vec<u16>, u8, u8, u8, u8, u8, u8, u8, u8), (Vec<u16>, u8, u8, u8, u8, u8, u8, u8, u8, u8), (Vec<u16>, u8, u8, u8, u8, u8, u8, u8, u8, u8, u8), (Vec<u16>, u8, u8, u8, u8, u8, u8, u8, u8, u8, u8, u8), (Vec<u16>, u8, u8, u8, u8, u8, u8, u8, u8, u8, u8, u8, u8), (Vec<u16>, u8, u8, u8, u8, u8, u8, u8, u8, u8, u8, u8, u8, u8), (Vec<u16>, u8, u8, u8, u8, u8, u8, u8, u8, u8, u8, u8, u8, u8, u8), (Vec<u16>, u8, u8, u8, u8, u8, u8, u8, u8, u8, u8, u8, u8, u8, u8, u8), (Vec<u16>, u8, u8, u8, u8, u8, u8, u8, u8, u8, u8, u8, u8, u8, u8, u8, u8), (Vec<u16>, u8, u8, u8, u8, u8, u8, u8, u8, u8, u8, u8, u8, u8, u8, u8, u8, u8),
		(BTreeMap<u8, u8>, u32), (VecDeque<u8>, String), (LinkedList<u8>,), (BinaryHeap<u8>, bool, u8), (BTreeSet<u8>, u8));

	// strings and holders
	add!(v; full: (Box<()>, Box<u8>), Vec<Box<()>>, (Rc<PhantomData<u32>>, Arc<[u16; 0]>, Vec<Vec<u8>>), [Box<()>; 4], (Box<()>, Box<()>, Box<Box<u8>>),
		BTreeMap<u8, Box<()>>, (Arc<()>, Vec<Option<Box<u16>>>));
	add!(v; full: BTreeSet<()>, BTreeMap<(), ()>, LinkedList<PhantomData<u64>>, VecDeque<[u32; 0]>, BinaryHeap<()>, (VecDeque<()>, u32), (BTreeSet<()>,),
		(LinkedList<()>, u8, u16, u32), VecDeque<()>, LinkedList<()>);
	add!(v; full: Vec<RangeInclusive<u32>>, Option<RangeInclusive<i64>>, (u8, RangeInclusive<u16>), BTreeMap<u8, RangeInclusive<u8>>, [RangeInclusive<u8>; 2],
		Box<RangeInclusive<u128>>, Option<Range<u8>>, Vec<RangeInclusive<String>>, (Range<u32>, RangeInclusive<u32>),
		(u8, Duration, u8), Vec<(OptionBool, Option<bool>)>, Result<Duration, RangeInclusive<u8>>);
	add!(v; full: String, Box<u32>, Box<String>, Box<[u8; 100]>, Box<Vec<u16>>, Box<()>, Rc<u64>, Rc<Vec<u8>>, Rc<[u32; 4]>,
		Arc<u16>, Arc<String>, Arc<(u8, Vec<u8>)>, Box<Box<u8>>, Box<Option<Box<u16>>>, Rc<Arc<Box<u32>>>,
		Box<[Box<u16>; 5]>, Vec<Box<u8>>, Option<Box<[u64; 3]>>);
	// Result with the longer side on Ok, on Err, and nested (C13: the tag byte is added to the longer side)
	add!(v; full: Result<u32, u8>, Result<u128, ()>, Result<Compact<u64>, bool>, Option<Result<u64, u8>>, [Result<u16, ()>; 2],
		(Result<u32, u8>, u8), Result<Result<u64, u8>, u16>, Result<(), u64>, Result<[u8; 9], Option<u8>>);
	add!(v; full: Cow<'static, u32>, Cow<'static, String>);
	add!(v; codec: Cow<'static, [u16]>, Cow<'static, str>, Cow<'static, [String]>);
	add!(v; enc: RefOf<u32>, RefOf<Vec<u8>>, RefOf<String>, RefRefOf<u64>, RefRefOf<(u8, String)>, MutRefOf<u16>, MutRefOf<Vec<u32>>,
		CowBorrowedOf<u32>, CowBorrowedOf<Vec<u8>>, RefWrapperOf<u32>, RefWrapperOf<Vec<u16>>,
		SliceOf<u8>, SliceOf<u32>, SliceOf<i64>, SliceOf<String>, SliceOf<(u8, u16)>, SliceOf<()>, CowSliceOf<u16>, CowSliceOf<String>,
		StrOf, CowStrOf,
		Box<[u8]>, Box<[u32]>, Rc<[u16]>, Arc<[u64]>, Box<[String]>, Rc<[(u8, u16)]>, Arc<[()]>, Box<[Box<u32>]>, Box<str>, Rc<str>, Arc<str>,
		Vec<Box<[u16]>>, (Box<str>, Arc<[u8]>), Option<Rc<[u32]>>,
		SliceOf<Box<u32>>, SliceOf<Rc<u16>>, Vec<RefOf<u32>>, Vec<RefOf<u8>>, [RefOf<u64>; 3], VecDeque<Arc<u16>>, Vec<CowBorrowedOf<u32>>, Vec<RefWrapperOf<u64>>, SliceOf<RefOf<f64>>);

	#[cfg(feature = "bit-vec")]
	{
		use bitvec::{boxed::BitBox, order::{Lsb0, Msb0}, vec::BitVec};
		add!(v; full: BitVec<u8, Lsb0>, BitVec<u8, Msb0>, BitVec<u16, Lsb0>, BitVec<u16, Msb0>, BitVec<u32, Lsb0>, BitVec<u32, Msb0>,
			BitVec<u64, Lsb0>, BitVec<u64, Msb0>, BitBox<u8, Lsb0>, BitBox<u8, Msb0>, BitBox<u16, Lsb0>, BitBox<u32, Msb0>,
			BitBox<u64, Lsb0>, Vec<BitVec<u8, Msb0>>, (BitVec<u16, Lsb0>, u8));
		add!(v; full: BitBox<u64, Msb0>, Option<BitVec<u8, Lsb0>>, BTreeMap<u8, BitVec<u16, Msb0>>, [BitVec<u8, Msb0>; 2], Box<BitVec<u32, Lsb0>>);
		add!(v; enc: BitSliceOf<u8, Lsb0>, BitSliceOf<u8, Msb0>, BitSliceOf<u16, Lsb0>, BitSliceOf<u16, Msb0>,
			BitSliceOf<u32, Lsb0>, BitSliceOf<u32, Msb0>, BitSliceOf<u64, Lsb0>, BitSliceOf<u64, Msb0>);
	}
	#[cfg(feature = "bytes")]
	{
		use bytes::Bytes;
		add!(v; full: Bytes, Option<Bytes>, (Bytes, Bytes), Vec<Bytes>, (u8, Bytes, Vec<u16>, Bytes));
	}
	#[cfg(feature = "generic-array")]
	{
		use generic_array::{typenum::*, GenericArray};
		add!(v; codec: GenericArray<u8, U0>, GenericArray<u8, U1>, GenericArray<u16, U3>, GenericArray<u32, U7>,
			GenericArray<u8, U32>, GenericArray<String, U3>, GenericArray<Option<u16>, U7>, Vec<GenericArray<u8, U3>>,
			GenericArray<Vec<u8>, U3>, GenericArray<u64, U32>, Option<GenericArray<u16, U3>>, GenericArray<GenericArray<u8, U3>, U3>,
			Box<GenericArray<u32, U7>>, GenericArray<bool, U4>, GenericArray<Compact<u32>, U3>, Vec<GenericArray<Option<u8>, U3>>,
			(GenericArray<Option<u16>, U2>, Vec<Vec<u8>>), GenericArray<(u8, bool), U2>, GenericArray<Box<u8>, U3>, Box<GenericArray<Vec<u16>, U3>>);
	}
	#[cfg(feature = "derive")]
	{
		use crate::derived::*;
		add!(v; full: UnitS, WithSkip, WithCompact, WithEncodedAs, SingleCompact, SingleCompact16, AllSkip, Simple, Indexed, Discr,
			DataFixed, TransparentArr, TransparentZst, Named, Tup, SingleSkipRest, Generic<u8>, Generic<String>, TransparentBox,
			Data, TupEnum, Nested, Tree, Linked, MapTree, BoxTree, ArcChain, RcList, CWrap, UsesCWrap, Compact<CWrap>,
			Vec<Named>, Vec<Data>, Option<Simple>, Vec<AllSkip>, Box<TransparentArr>, [TransparentZst; 2], Vec<Tree>,
			BTreeMap<Simple, Indexed>, (Simple, WithCompact, Discr), Box<TransparentBox>, Vec<UnitS>,
			TransparentCompact, Box<TransparentCompact>, [TransparentCompact; 3], Rc<TransparentEncodedAs>, [TransparentEncodedAs; 2],
			Box<SingleCompact>, [WithCompact; 2], Arc<Arc<Arc<u32>>>, Rc<Rc<u8>>, Vec<Arc<Vec<Arc<u16>>>>, Option<Arc<ArcChain>>, Box<DataFixed>, [Data; 2], Arc<Nested>, Box<TupEnum>,
			Amount, Balance, Vec<Amount>, [Balance; 2], MelBound<[u8; 4]>, MelBound<Option<u16>>,
			Compact<CWrap8>, Compact<CWrap16>, Compact<CWrap64>, Compact<CWrap128>, (Compact<CWrap16>, [Compact<CWrap8>; 3], Option<Compact<CWrap64>>),
			Marker, MarkerPair, [Marker; 4], Box<[Marker; 4]>, ([Marker; 2], u16), Vec<Marker>, [[Marker; 2]; 2], [MarkerPair; 3],
			Rc<[Marker; 3]>, Option<[Marker; 1]>, (Arc<[MarkerPair; 2]>, Vec<u8>), Vec<[Marker; 2]>,
			(Box<UnitS>, Vec<Vec<u8>>), [Box<AllSkip>; 3]);
	}

	#[cfg(feature = "max-encoded-len")]
	{
		mark!(v; cel: u8, u16, u32, u64, u128, i8, i16, i32, i64, i128, bool, Duration,
			NonZeroU8, NonZeroU16, NonZeroU32, NonZeroU64, NonZeroU128, NonZeroI8, NonZeroI16, NonZeroI32, NonZeroI64, NonZeroI128,
			PhantomData<u32>, Range<u32>, RangeInclusive<i16>, Box<u32>, Box<[u8; 100]>, Box<Box<u8>>,
			[u8; 0], [u8; 1], [u8; 32], [u8; 2048], [u16; 3], [u128; 3], [i64; 1], [bool; 3], [[u8; 2]; 3], [(u8, u16); 3],
			(u8,), (u8, u16), (u8, u16, u32), (u8, u16, u32, u64, u128, i8, i16, i32, i64, i128, bool, u8, u16, u32, u64, u8, u16),
			[Box<u32>; 3], Range<u128>, RangeInclusive<u8>, Range<i64>, [Duration; 2], [NonZeroU8; 4], [u32; 2048], [[[u8; 2]; 2]; 2],
			Box<[u8; 100000]>, [(); 0]);
		mark!(v; mel: Box<Option<u8>>, Box<Compact<u64>>, Range<Option<u16>>, RangeInclusive<Result<u8, u32>>, (u8, Box<Compact<u16>>),
			[Range<Compact<u8>>; 3], Box<Result<bool, u64>>, [Box<Option<u16>>; 2], PhantomData<Option<u8>>, Option<Duration>, Option<NonZeroU128>, Option<Option<Option<bool>>>, Option<Compact<()>>, Compact<u8>, Compact<u16>, Compact<u32>, Compact<u64>, Compact<u128>, Compact<()>,
			Option<u8>, Option<bool>, Option<Option<u32>>, Result<u8, bool>, Result<Option<u16>, Result<bool, u64>>,
			Option<Compact<u32>>, Option<NonZeroU16>, Range<Compact<u64>>, [Option<u8>; 3], [Compact<u32>; 4],
			(Compact<u8>, Compact<u128>), (Compact<u64>,), Arc<u16>, Box<Option<Box<u16>>>, Option<Box<[u64; 3]>>,
			Box<[Box<u16>; 5]>, Result<u32, u8>, Result<u128, ()>, Result<Compact<u64>, bool>, Option<Result<u64, u8>>, [Result<u16, ()>; 2],
			(Result<u32, u8>, u8), Result<Result<u64, u8>, u16>, Result<(), u64>, Result<[u8; 9], Option<u8>>);
		#[cfg(feature = "derive")]
		{
			use crate::derived::*;
			mark!(v; mel: UnitS, WithSkip, WithCompact, WithEncodedAs, SingleCompact, SingleCompact16, AllSkip, Simple, Indexed,
				Discr, DataFixed, TransparentArr, TransparentZst, CWrap, Option<Simple>, Box<TransparentArr>, [TransparentZst; 2],
				TransparentCompact, Box<TransparentCompact>, [TransparentCompact; 3], [TransparentEncodedAs; 2], Compact<CWrap>,
				Amount, Balance, [Balance; 2], MelBound<[u8; 4]>, MelBound<Option<u16>>,
				Compact<CWrap8>, Compact<CWrap16>, Compact<CWrap64>, Compact<CWrap128>, (Compact<CWrap16>, [Compact<CWrap8>; 3], Option<Compact<CWrap64>>),
				Marker, MarkerPair, [Marker; 4], Box<[Marker; 4]>, ([Marker; 2], u16), [[Marker; 2]; 2], [MarkerPair; 3], Option<[Marker; 1]>,
				(Simple, WithCompact, Discr));
		}
	}
	mark_len!(v; Vec<u8>, Vec<u32>, Vec<String>, Vec<()>, Vec<Vec<u8>>, VecDeque<u8>, VecDeque<String>, LinkedList<u8>, LinkedList<String>,
		BinaryHeap<u8>, BinaryHeap<u32>, BTreeSet<u8>, BTreeSet<String>, BTreeMap<u8, u8>, BTreeMap<u32, String>,
		(Vec<u16>,), (Vec<u16>, u8), (Vec<u16>, u8, u8), (Vec<u16>, u8, u8, u8), (Vec<u16>, u8, u8, u8, u8), (Vec<u16>, u8, u8, u8, u8, u8), (Vec<u16>, u8, u8, u8, u8, u8, u8), (Vec<u16>, u8, u8, u8, u8, u8, u8, u8), (Vec<u16>, u8, u8, u8, u8, u8, u8, u8, u8), (Vec<u16>, u8, u8, u8, u8, u8, u8, u8, u8, u8), (Vec<u16>, u8, u8, u8, u8, u8, u8, u8, u8, u8, u8), (Vec<u16>, u8, u8, u8, u8, u8, u8, u8, u8, u8, u8, u8), (Vec<u16>, u8, u8, u8, u8, u8, u8, u8, u8, u8, u8, u8, u8), (Vec<u16>, u8, u8, u8, u8, u8, u8, u8, u8, u8, u8, u8, u8, u8), (Vec<u16>, u8, u8, u8, u8, u8, u8, u8, u8, u8, u8, u8, u8, u8, u8), (Vec<u16>, u8, u8, u8, u8, u8, u8, u8, u8, u8, u8, u8, u8, u8, u8, u8), (Vec<u16>, u8, u8, u8, u8, u8, u8, u8, u8, u8, u8, u8, u8, u8, u8, u8, u8), (Vec<u16>, u8, u8, u8, u8, u8, u8, u8, u8, u8, u8, u8, u8, u8, u8, u8, u8, u8),
		(BTreeMap<u8, u8>, u32), (VecDeque<u8>, String), (LinkedList<u8>,), (BinaryHeap<u8>, bool, u8), (BTreeSet<u8>, u8),
		(Vec<u8>, String), (Vec<u32>,),
		BTreeSet<()>, BTreeMap<(), ()>, LinkedList<PhantomData<u64>>, VecDeque<[u32; 0]>, BinaryHeap<()>, (VecDeque<()>, u32), (BTreeSet<()>,),
		(LinkedList<()>, u8, u16, u32), VecDeque<()>, LinkedList<()>, Vec<Box<()>>);
	#[cfg(feature = "derive")]
	{
		use crate::derived::*;
		mark_len!(v; Vec<Marker>, Vec<AllSkip>, Vec<[Marker; 2]>, Vec<Named>, Vec<UnitS>);
	}
	// a type listed twice keeps its first entry (marks are applied by name, after all entries exist)
	let mut seen = std::collections::BTreeSet::new();
	v.retain(|e| seen.insert(e.name));
	v
}
