//! Owners for borrowed / alias encodable forms (`&T`, `&&T`, `&mut T`, `&str`, `&[T]`,
//! `Cow::Borrowed`, `Ref`, bit slices). Each wrapper forwards every `Encode` method separately to
//! the borrowed form, so all entry points of the form under test are still exercised one by one.

use crate::{
	codec::{Encode, EncodeLike, Output, Ref},
	modeled::Modeled,
};
use psc_model::ty::*;
use std::{borrow::Cow, cell::RefCell, mem::size_of};

macro_rules! forward_encode {
	(impl [$($g:tt)*] for $w:ty, |$s:ident| $form:expr) => {
		impl<$($g)*> Encode for $w {
			fn size_hint(&self) -> usize { let $s = self; Encode::size_hint(&$form) }
			fn encode_to<W: Output + ?Sized>(&self, dest: &mut W) { let $s = self; Encode::encode_to(&$form, dest) }
			fn encode(&self) -> Vec<u8> { let $s = self; Encode::encode(&$form) }
			fn using_encoded<R, F: FnOnce(&[u8]) -> R>(&self, f: F) -> R { let $s = self; Encode::using_encoded(&$form, f) }
			fn encoded_size(&self) -> usize { let $s = self; Encode::encoded_size(&$form) }
		}
	};
}

fn ref_ty<T: Modeled>() -> Ty {
	Ty::Holder { kind: HolderKind::Ref, inner: Box::new(T::ty()), mem: size_of::<T>() }
}

/// `&T`
pub struct RefOf<T>(pub T);
forward_encode!(impl [T: Encode] for RefOf<T>, |s| &s.0);
/// `&&T`
pub struct RefRefOf<T>(pub T);
forward_encode!(impl [T: Encode] for RefRefOf<T>, |s| &&s.0);
/// `&mut T`
pub struct MutRefOf<T>(pub RefCell<T>);
forward_encode!(impl [T: Encode] for MutRefOf<T>, |s| &mut *s.0.borrow_mut());
/// `Cow::Borrowed(&T)`
pub struct CowBorrowedOf<T>(pub T);
forward_encode!(impl [T: Encode + Clone] for CowBorrowedOf<T>, |s| Cow::Borrowed(&s.0));
/// `Ref<T, T>`
pub struct RefWrapperOf<T>(pub T);
forward_encode!(impl [T: Encode + EncodeLike<T>] for RefWrapperOf<T>, |s| Ref::<T, T>::from(&s.0));
/// `&[T]`
pub struct SliceOf<T>(pub Vec<T>);
forward_encode!(impl [T: Encode] for SliceOf<T>, |s| &s.0[..]);
/// `Cow::Borrowed(&[T])`
pub struct CowSliceOf<T>(pub Vec<T>);
forward_encode!(impl [T: Encode + Clone] for CowSliceOf<T>, |s| Cow::Borrowed(&s.0[..]));
/// `&str`
pub struct StrOf(pub String);
forward_encode!(impl [] for StrOf, |s| &s.0[..]);
/// `Cow::Borrowed(&str)`
pub struct CowStrOf(pub String);
forward_encode!(impl [] for CowStrOf, |s| Cow::Borrowed(&s.0[..]));

macro_rules! holder_modeled {
	($($w:ident => |$v:ident| $ctor:expr, |$s:ident| $get:expr);*) => {$(
		impl<T: Modeled> Modeled for $w<T> {
			const ZW: bool = T::ZW;
			fn ty() -> Ty { ref_ty::<T>() }
			fn from_val($v: &Val) -> Self { $ctor }
			fn to_val(&self) -> Val { let $s = self; $get }
		}
	)*}
}
holder_modeled!(
	RefOf => |v| RefOf(T::from_val(v)), |s| s.0.to_val();
	RefRefOf => |v| RefRefOf(T::from_val(v)), |s| s.0.to_val();
	MutRefOf => |v| MutRefOf(RefCell::new(T::from_val(v))), |s| s.0.borrow().to_val();
	CowBorrowedOf => |v| CowBorrowedOf(T::from_val(v)), |s| s.0.to_val();
	RefWrapperOf => |v| RefWrapperOf(T::from_val(v)), |s| s.0.to_val()
);

fn slice_ty<T: Modeled>() -> Ty {
	Ty::Seq { kind: SeqKind::Slice, elem: Box::new(T::ty()), elem_mem: size_of::<T>() }
}

impl<T: Modeled> Modeled for SliceOf<T> {
	fn ty() -> Ty {
		slice_ty::<T>()
	}
	fn from_val(v: &Val) -> Self {
		SliceOf(T::seq_from_val(v))
	}
	fn to_val(&self) -> Val {
		T::seq_to_val(self.0.iter(), self.0.len())
	}
}

impl<T: Modeled> Modeled for CowSliceOf<T> {
	fn ty() -> Ty {
		slice_ty::<T>()
	}
	fn from_val(v: &Val) -> Self {
		CowSliceOf(T::seq_from_val(v))
	}
	fn to_val(&self) -> Val {
		T::seq_to_val(self.0.iter(), self.0.len())
	}
}

impl Modeled for StrOf {
	fn ty() -> Ty {
		Ty::Str
	}
	fn from_val(v: &Val) -> Self {
		StrOf(String::from_val(v))
	}
	fn to_val(&self) -> Val {
		self.0.to_val()
	}
}

impl Modeled for CowStrOf {
	fn ty() -> Ty {
		Ty::Str
	}
	fn from_val(v: &Val) -> Self {
		CowStrOf(String::from_val(v))
	}
	fn to_val(&self) -> Val {
		self.0.to_val()
	}
}

#[cfg(feature = "bit-vec")]
mod bitslice {
	use super::*;
	use crate::modeled::OrderModel;
	use bitvec::{store::BitStore, vec::BitVec};

	/// `&BitSlice` taken at a non-zero offset inside a larger backing vector.
	pub struct BitSliceOf<S: BitStore, O: OrderModel> {
		pub backing: BitVec<S, O>,
		pub start: usize,
		pub len: usize,
	}

	impl<S: BitStore + Encode, O: OrderModel> BitSliceOf<S, O> {
		pub fn build(bits: &[bool], start: usize) -> Self {
			let mut backing: BitVec<S, O> = BitVec::new();
			// junk before and after the window: must never leak into the encoding
			for i in 0..start {
				backing.push(i % 3 != 1);
			}
			for b in bits {
				backing.push(*b);
			}
			for i in 0..5 {
				backing.push(i % 2 == 0);
			}
			BitSliceOf { backing, start, len: bits.len() }
		}
	}

	forward_encode!(impl [S: BitStore + Encode, O: OrderModel] for BitSliceOf<S, O>, |s| &s.backing[s.start..s.start + s.len]);

	impl<S: BitStore + Encode, O: OrderModel> Modeled for BitSliceOf<S, O> {
		fn ty() -> Ty {
			<BitVec<S, O> as Modeled>::ty()
		}
		fn from_val(v: &Val) -> Self {
			match v {
				Val::Bits(b) => Self::build(b, (b.len() * 7 + 3) % 71),
				o => panic!("model: bits expected, got {}", o.brief(60)),
			}
		}
		fn to_val(&self) -> Val {
			Val::Bits(self.backing[self.start..self.start + self.len].iter().by_vals().collect())
		}
	}
}
#[cfg(feature = "bit-vec")]
pub use bitslice::BitSliceOf;

// Unsized pointees behind owning pointers: `Box<[T]>`, `Rc<[T]>`, `Arc<[T]>`, `Box<str>`, `Rc<str>`, `Arc<str>`
// (encode-only in the crate: the wrapper blanket impl is `?Sized`).
macro_rules! unsized_slice_modeled {
	($($p:ident),*) => {$(
		impl<T: Modeled> Modeled for $p<[T]> {
			fn ty() -> Ty { slice_ty::<T>() }
			fn from_val(v: &Val) -> Self { T::seq_from_val(v).into() }
			fn to_val(&self) -> Val { T::seq_to_val(self.iter(), self.len()) }
		}
		impl Modeled for $p<str> {
			fn ty() -> Ty { Ty::Str }
			fn from_val(v: &Val) -> Self { String::from_val(v).into() }
			fn to_val(&self) -> Val { self.to_string().to_val() }
		}
	)*};
}
use std::{rc::Rc, sync::Arc};
unsized_slice_modeled!(Box, Rc, Arc);
