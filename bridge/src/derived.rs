//! `model_type!`: states the layout a derive definition *promises* (from the definition, not
//! from the macro under test), and the hand-written derived types of the zoo.

#[macro_export]
macro_rules! model_type {
	(@field $t:ty, plain) => { $crate::model::ty::Field { ty: <$t as $crate::Modeled>::ty(), skip: false } };
	(@field $t:ty, skip) => { $crate::model::ty::Field { ty: <$t as $crate::Modeled>::ty(), skip: true } };
	(@field $t:ty, compact) => { $crate::model::ty::Field { ty: <$t as $crate::CompactModel>::compact_ty(), skip: false } };
	(@field $t:ty, as_($x:ty)) => { $crate::model::ty::Field { ty: <$x as $crate::Modeled>::ty(), skip: false } };
	(@field $t:ty, ty_($e:expr)) => { $crate::model::ty::Field { ty: $e, skip: false } };
	(@zw $t:ty, plain) => { <$t as $crate::Modeled>::ZW };
	(@zw $t:ty, skip) => { true };
	(@zw $t:ty, compact) => { <$t as $crate::Modeled>::ZW };
	(@zw $t:ty, as_($x:ty)) => { <$x as $crate::Modeled>::ZW };
	(@zw $t:ty, ty_($e:expr)) => { false };
	(@idx skip) => { None };
	(@idx [$e:expr]) => { Some(($e) as u8) };

	(struct $name:ident $(<$($g:ident),*>)? { $($f:tt : $t:ty = $mode:ident $(($($arg:tt)*))?),* $(,)? }) => {
		impl $(<$($g: $crate::Modeled),*>)? $crate::Modeled for $name $(<$($g),*>)? {
			const ZW: bool = true $(&& $crate::model_type!(@zw $t, $mode $(($($arg)*))?))*;
			fn ty() -> $crate::model::ty::Ty {
				#[allow(unused_mut)]
				let mut name = ::std::string::String::from(stringify!($name));
				$( $( name.push_str(&format!("<{}>", <$g as $crate::Modeled>::ty().short_name())); )* )?
				let t = $crate::model::ty::Ty::Struct {
					name: name.clone(),
					fields: vec![$($crate::model_type!(@field $t, $mode $(($($arg)*))?)),*],
				};
				$crate::model::ty::register(&name, t.clone());
				t
			}
			#[allow(unused_variables, unused_mut, unused_assignments)]
			fn from_val(v: &$crate::model::ty::Val) -> Self {
				let xs = v.as_tuple();
				let mut i = 0usize;
				$name { $($f: { let x = <$t as $crate::Modeled>::from_val(&xs[i]); i += 1; x }),* }
			}
			fn to_val(&self) -> $crate::model::ty::Val {
				$crate::model::ty::Val::Tuple(vec![$($crate::Modeled::to_val(&self.$f)),*])
			}
		}
	};

	(enum $name:ident { $($var:ident = $idx:tt { $($f:ident : $t:ty = $mode:ident $(($($arg:tt)*))?),* $(,)? }),* $(,)? }) => {
		impl $crate::Modeled for $name {
			fn ty() -> $crate::model::ty::Ty {
				let t = $crate::model::ty::Ty::Enum {
					name: stringify!($name).into(),
					variants: vec![$($crate::model::ty::Variant {
						name: stringify!($var).into(),
						index: $crate::model_type!(@idx $idx),
						fields: vec![$($crate::model_type!(@field $t, $mode $(($($arg)*))?)),*],
					}),*],
				};
				$crate::model::ty::register(stringify!($name), t.clone());
				t
			}
			#[allow(unused_variables, unused_mut, unused_assignments)]
			fn from_val(v: &$crate::model::ty::Val) -> Self {
				let (i, xs) = match v {
					$crate::model::ty::Val::Variant(i, xs) => (*i, xs),
					o => panic!("model: variant expected, got {}", o.brief(60)),
				};
				let mut k = 0usize;
				$(
					if i == k {
						let mut j = 0usize;
						return $name::$var { $($f: { let x = <$t as $crate::Modeled>::from_val(&xs[j]); j += 1; x }),* };
					}
					k += 1;
				)*
				panic!("model: variant position {i} out of range for {}", stringify!($name));
			}
			#[allow(unused_variables, unused_mut, unused_assignments)]
			fn to_val(&self) -> $crate::model::ty::Val {
				let mut k = 0usize;
				$(
					if let $name::$var { $(ref $f),* } = self {
						return $crate::model::ty::Val::Variant(k, vec![$($crate::Modeled::to_val($f)),*]);
					}
					k += 1;
				)*
				unreachable!()
			}
		}
	};
}

#[cfg(feature = "derive")]
pub use types::*;

#[cfg(feature = "derive")]
mod types {
	use crate::{
		codec::{self, Compact, CompactAs, Decode, DecodeWithMemTracking, Encode},
		CompactModel, Modeled,
	};
	use psc_model::ty::*;
	use std::{collections::BTreeMap, marker::PhantomData, mem::size_of};

	#[cfg(feature = "max-encoded-len")]
	use crate::codec::MaxEncodedLen;

	macro_rules! derive_all {
		($($item:item)*) => {$(
			#[derive(Encode, Decode, DecodeWithMemTracking, Debug, Clone, PartialEq, Eq, PartialOrd, Ord)]
			$item
		)*}
	}
	macro_rules! derive_all_mel {
		($($item:item)*) => {$(
			#[derive(Encode, Decode, DecodeWithMemTracking, Debug, Clone, PartialEq, Eq, PartialOrd, Ord)]
			#[cfg_attr(feature = "max-encoded-len", derive(MaxEncodedLen))]
			$item
		)*}
	}

	derive_all_mel! {
		pub struct UnitS;
		pub struct WithSkip { pub a: u8, #[codec(skip)] pub b: u32, pub c: u16 }
		pub struct WithCompact { #[codec(compact)] pub a: u64, pub b: u8, #[codec(compact)] pub c: u128 }
		pub struct WithEncodedAs { #[codec(encoded_as = "Compact<u32>")] pub a: u32, pub b: bool }
		pub struct SingleCompact { #[codec(compact)] pub x: u32 }
		pub struct SingleCompact16(#[codec(compact)] pub u16);
		pub struct AllSkip { #[codec(skip)] pub a: u32, #[codec(skip)] pub b: Option<u8> }
		// zero-sized in memory, one byte on the wire (and two for the pair): "nothing to store" is not "nothing to read"
		pub enum Marker { #[codec(index = 7)] Only }
		pub struct MarkerPair(pub Marker, pub Marker);
		// variants with token-equal field types in different representations
		pub enum Amount { Exact { v: u32 }, Packed { #[codec(compact)] v: u32 }, As { #[codec(encoded_as = "Compact<u32>")] v: u32 } }
		pub enum Balance { Raw { free: u64, fee: u8 }, Stored { #[codec(encoded_as = "Compact<u64>")] free: u64, #[codec(compact)] fee: u8 } }
		// hand-written bound list next to fields with their own representation
		#[cfg_attr(feature = "max-encoded-len", codec(mel_bound(T: MaxEncodedLen)))]
		pub struct MelBound<T> { #[codec(compact)] pub amount: u128, pub memo: T, #[codec(encoded_as = "Compact<u16>")] pub fee: u16 }
		pub enum Simple { A, B, C }
		pub enum Indexed { #[codec(index = 15)] A, #[codec(skip)] B, C = 3, D, #[codec(index = 255)] Z, #[codec(index = 0)] Zero }
		#[repr(u8)]
		pub enum Discr { A = 1, B = 5, C = 200 }
		pub enum DataFixed {
			A { x: u8 },
			B { #[codec(compact)] y: u32, z: [u16; 3] },
			#[codec(skip)] S { q: u8 },
			U,
			#[codec(index = 9)] W { #[codec(skip)] s: u16, t: Option<u64>, #[codec(encoded_as = "Compact<u64>")] u: u64 },
		}
		#[repr(transparent)]
		pub struct TransparentArr(pub [u8; 32]);
		#[repr(transparent)]
		pub struct TransparentZst(pub PhantomData<u8>, pub [u16; 3], pub ());
		#[repr(transparent)]
		pub struct TransparentCompact(#[codec(compact)] pub u32);
		#[repr(transparent)]
		pub struct TransparentEncodedAs { #[codec(encoded_as = "Compact<u64>")] pub v: u64, pub p: PhantomData<u8> }
	}

	derive_all! {
		pub struct Named { pub a: u32, pub b: Vec<u8>, pub c: Option<bool> }
		pub struct Tup(pub u16, pub String);
		pub struct SingleSkipRest(#[codec(skip)] pub u8, pub Vec<u16>, #[codec(skip)] pub PhantomData<u8>);
		pub struct Generic<T> { pub t: T, pub v: Vec<T> }
		#[repr(transparent)]
		pub struct TransparentBox(pub Box<[u32; 4]>);
		pub enum Data {
			A { x: u8 },
			B { #[codec(compact)] y: u32, z: String },
			#[codec(skip)] S { q: u8 },
			U,
			#[codec(index = 77)] V { v: Vec<Named>, m: BTreeMap<u16, Tup> },
		}
		pub enum TupEnum { A(u8, u16), B(Vec<u8>), C, #[codec(index = 7)] D(#[codec(compact)] u64, #[codec(skip)] u8) }
		pub struct Nested { pub n: Named, pub e: Data, pub o: Option<Tup>, pub g: Generic<u16> }
		pub enum Tree { Leaf { v: u8 }, Node { children: Vec<Tree> } }
		pub struct Linked { pub v: u8, pub next: Option<Box<Linked>> }
		pub enum MapTree { L, N { m: BTreeMap<u8, MapTree> } }
		pub enum BoxTree { L { v: u16 }, N { l: Box<BoxTree>, r: Box<BoxTree> } }
		pub enum ArcChain { End, Link { next: std::sync::Arc<ArcChain> } }
		pub struct RcList { pub v: u8, pub rest: Option<std::rc::Rc<RcList>> }
	}

	#[derive(Encode, Decode, DecodeWithMemTracking, CompactAs, Debug, Clone, PartialEq, Eq, PartialOrd, Ord)]
	#[cfg_attr(feature = "max-encoded-len", derive(MaxEncodedLen))]
	pub struct CWrap(pub u32);

	macro_rules! cwraps {
		($($name:ident($t:ty, $bits:expr)),*) => {$(
			#[derive(Encode, Decode, DecodeWithMemTracking, CompactAs, Debug, Clone, PartialEq, Eq, PartialOrd, Ord)]
			#[cfg_attr(feature = "max-encoded-len", derive(MaxEncodedLen))]
			pub struct $name(pub $t);
			model_type!(struct $name { 0: $t = plain });
			impl CompactModel for $name {
				fn compact_ty() -> Ty {
					Ty::Struct { name: concat!("Compact<", stringify!($name), ">").into(), fields: vec![Field { ty: Ty::Compact($bits), skip: false }] }
				}
			}
		)*};
	}
	cwraps!(CWrap8(u8, 8), CWrap16(u16, 16), CWrap64(u64, 64), CWrap128(u128, 128));

	#[derive(Encode, Decode, DecodeWithMemTracking, CompactAs, Debug, Clone, PartialEq, Eq, PartialOrd, Ord)]
	pub struct CWrapSkip<T> { pub v: u64, #[codec(skip)] pub p: PhantomData<T> }

	derive_all! {
		pub struct UsesCWrap { #[codec(compact)] pub w: CWrap, pub t: u8, #[codec(compact)] pub s: CWrapSkip<u8> }
	}

	model_type!(struct UnitS {});
	model_type!(struct WithSkip { a: u8 = plain, b: u32 = skip, c: u16 = plain });
	model_type!(struct WithCompact { a: u64 = compact, b: u8 = plain, c: u128 = compact });
	model_type!(struct WithEncodedAs { a: u32 = as_(Compact<u32>), b: bool = plain });
	model_type!(struct SingleCompact { x: u32 = compact });
	model_type!(struct SingleCompact16 { 0: u16 = compact });
	model_type!(struct AllSkip { a: u32 = skip, b: Option<u8> = skip });
	model_type!(enum Marker { Only = [7] {} });
	model_type!(struct MarkerPair { 0: Marker = plain, 1: Marker = plain });
	model_type!(enum Amount { Exact = [0] { v: u32 = plain }, Packed = [1] { v: u32 = compact }, As = [2] { v: u32 = as_(Compact<u32>) } });
	model_type!(enum Balance { Raw = [0] { free: u64 = plain, fee: u8 = plain }, Stored = [1] { free: u64 = as_(Compact<u64>), fee: u8 = compact } });
	model_type!(struct MelBound<T> { amount: u128 = compact, memo: T = plain, fee: u16 = as_(Compact<u16>) });
	model_type!(enum Simple { A = [0] {}, B = [1] {}, C = [2] {} });
	model_type!(enum Indexed { A = [15] {}, B = skip {}, C = [3] {}, D = [2] {}, Z = [255] {}, Zero = [0] {} });
	model_type!(enum Discr { A = [1] {}, B = [5] {}, C = [200] {} });
	model_type!(enum DataFixed {
		A = [0] { x: u8 = plain },
		B = [1] { y: u32 = compact, z: [u16; 3] = plain },
		S = skip { q: u8 = plain },
		U = [2] {},
		W = [9] { s: u16 = skip, t: Option<u64> = plain, u: u64 = as_(Compact<u64>) },
	});
	model_type!(struct TransparentArr { 0: [u8; 32] = plain });
	model_type!(struct TransparentZst { 0: PhantomData<u8> = plain, 1: [u16; 3] = plain, 2: () = plain });
	model_type!(struct TransparentCompact { 0: u32 = compact });
	model_type!(struct TransparentEncodedAs { v: u64 = as_(Compact<u64>), p: PhantomData<u8> = plain });
	model_type!(struct Named { a: u32 = plain, b: Vec<u8> = plain, c: Option<bool> = plain });
	model_type!(struct Tup { 0: u16 = plain, 1: String = plain });
	model_type!(struct SingleSkipRest { 0: u8 = skip, 1: Vec<u16> = plain, 2: PhantomData<u8> = skip });
	model_type!(struct Generic<T> { t: T = plain, v: Vec<T> = plain });
	model_type!(struct TransparentBox { 0: Box<[u32; 4]> = plain });
	model_type!(enum Data {
		A = [0] { x: u8 = plain },
		B = [1] { y: u32 = compact, z: String = plain },
		S = skip { q: u8 = plain },
		U = [2] {},
		V = [77] { v: Vec<Named> = plain, m: BTreeMap<u16, Tup> = plain },
	});
	model_type!(struct Nested { n: Named = plain, e: Data = plain, o: Option<Tup> = plain, g: Generic<u16> = plain });
	model_type!(enum Tree {
		Leaf = [0] { v: u8 = plain },
		Node = [1] { children: Vec<Tree> = ty_(Ty::vec(Ty::Ref("Tree".into()), size_of::<Tree>())) },
	});
	model_type!(struct Linked {
		v: u8 = plain,
		next: Option<Box<Linked>> = ty_(Ty::Option(Box::new(Ty::Holder {
			kind: HolderKind::Box, inner: Box::new(Ty::Ref("Linked".into())), mem: size_of::<Linked>() })))
	});
	model_type!(enum MapTree {
		L = [0] {},
		N = [1] { m: BTreeMap<u8, MapTree> = ty_(Ty::Map {
			k: Box::new(Ty::U(8)), v: Box::new(Ty::Ref("MapTree".into())), entry_mem: size_of::<(u8, MapTree)>() }) },
	});
	model_type!(enum BoxTree {
		L = [0] { v: u16 = plain },
		N = [1] {
			l: Box<BoxTree> = ty_(Ty::Holder { kind: HolderKind::Box, inner: Box::new(Ty::Ref("BoxTree".into())), mem: size_of::<BoxTree>() }),
			r: Box<BoxTree> = ty_(Ty::Holder { kind: HolderKind::Box, inner: Box::new(Ty::Ref("BoxTree".into())), mem: size_of::<BoxTree>() }),
		},
	});
	model_type!(enum ArcChain {
		End = [0] {},
		Link = [1] { next: std::sync::Arc<ArcChain> = ty_(Ty::Holder { kind: HolderKind::Arc, inner: Box::new(Ty::Ref("ArcChain".into())), mem: size_of::<ArcChain>() }) },
	});
	model_type!(struct RcList {
		v: u8 = plain,
		rest: Option<std::rc::Rc<RcList>> = ty_(Ty::Option(Box::new(Ty::Holder {
			kind: HolderKind::Rc, inner: Box::new(Ty::Ref("RcList".into())), mem: size_of::<RcList>() })))
	});
	model_type!(struct CWrap { 0: u32 = plain });
	model_type!(struct UsesCWrap { w: CWrap = compact, t: u8 = plain, s: CWrapSkip<u8> = compact });

	impl CompactModel for CWrap {
		fn compact_ty() -> Ty {
			Ty::Struct { name: "Compact<CWrap>".into(), fields: vec![Field { ty: Ty::Compact(32), skip: false }] }
		}
	}
	impl<T> Modeled for CWrapSkip<T> {
		fn ty() -> Ty {
			Ty::Struct {
				name: "CWrapSkip".into(),
				fields: vec![Field { ty: Ty::U(64), skip: false }, Field { ty: Ty::Phantom, skip: true }],
			}
		}
		fn from_val(v: &Val) -> Self {
			CWrapSkip { v: v.as_tuple()[0].as_u() as u64, p: PhantomData }
		}
		fn to_val(&self) -> Val {
			Val::Tuple(vec![Val::U(u128::from(self.v)), Val::Unit])
		}
	}
	impl<T> CompactModel for CWrapSkip<T> {
		fn compact_ty() -> Ty {
			Ty::Struct {
				name: "Compact<CWrapSkip>".into(),
				fields: vec![Field { ty: Ty::Compact(64), skip: false }, Field { ty: Ty::Phantom, skip: true }],
			}
		}
	}

	// tuple-variant enum: manual impl (the macro handles named fields only)
	impl Modeled for TupEnum {
		fn ty() -> Ty {
			let f = |ty: Ty, skip: bool| Field { ty, skip };
			Ty::Enum {
				name: "TupEnum".into(),
				variants: vec![
					Variant { name: "A".into(), index: Some(0), fields: vec![f(Ty::U(8), false), f(Ty::U(16), false)] },
					Variant { name: "B".into(), index: Some(1), fields: vec![f(<Vec<u8>>::ty(), false)] },
					Variant { name: "C".into(), index: Some(2), fields: vec![] },
					Variant { name: "D".into(), index: Some(7), fields: vec![f(Ty::Compact(64), false), f(Ty::U(8), true)] },
				],
			}
		}
		fn from_val(v: &Val) -> Self {
			match v {
				Val::Variant(0, xs) => TupEnum::A(u8::from_val(&xs[0]), u16::from_val(&xs[1])),
				Val::Variant(1, xs) => TupEnum::B(Vec::<u8>::from_val(&xs[0])),
				Val::Variant(2, _) => TupEnum::C,
				Val::Variant(3, xs) => TupEnum::D(u64::from_val(&xs[0]), u8::from_val(&xs[1])),
				o => panic!("model: TupEnum from {}", o.brief(60)),
			}
		}
		fn to_val(&self) -> Val {
			match self {
				TupEnum::A(a, b) => Val::Variant(0, vec![a.to_val(), b.to_val()]),
				TupEnum::B(a) => Val::Variant(1, vec![a.to_val()]),
				TupEnum::C => Val::Variant(2, vec![]),
				TupEnum::D(a, b) => Val::Variant(3, vec![a.to_val(), b.to_val()]),
			}
		}
	}

	#[allow(dead_code)]
	fn _assert_traits() {
		fn is_compact_as<T: CompactAs>() {}
		is_compact_as::<CWrap>();
		let _ = codec::Compact(1u8);
	}
}
