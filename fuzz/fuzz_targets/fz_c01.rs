#![no_main]
use libfuzzer_sys::fuzz_target;

fuzz_target!(|data: &[u8]| {
	psc_checks::fuzz::entry("C01", "values", data);
});
