//! cfgprobe: built once per feature configuration of the crate under test. Runs a corpus that is
//! a pure function of VERIF_SEED and prints one line per case: digests of the encoding from each
//! entry point available in this configuration, the decode outcome, and the reference model's
//! answers. Error descriptions are never printed.

use psc_bridge::zoo::zoo;
use psc_model::{
	dec::ref_decode_ex,
	enc::ref_encode,
	gen::{splitmix, Gen},
	mutate::gen_input,
	stats::{fingerprint, hex},
	ty::*,
	valgen::*,
};
use std::io::Write;

fn main() {
	let seed: u64 = std::env::var("VERIF_SEED").ok().and_then(|s| s.parse().ok()).unwrap_or(1);
	let per_type: u64 = std::env::var("PROBE_CASES").ok().and_then(|s| s.parse().ok()).unwrap_or(12);
	let only = std::env::var("PROBE_ONLY").ok();
	let out = std::io::stdout();
	let mut out = out.lock();
	for e in zoo() {
		if only.as_deref().map_or(false, |o| o != e.name) {
			continue;
		}
		let tseed = seed ^ fingerprint(e.name);
		for i in 0..per_type {
			let mut tape = vec![0u8; 256];
			splitmix(tseed ^ i.wrapping_mul(0x9E37_79B9_7F4A_7C15)).fill(&mut tape);
			if i == 0 {
				tape.iter_mut().for_each(|b| *b = 0);
			}
			let mut g = Gen::new(&tape);
			// encoding: every entry point available here must describe the reference bytes
			if let Some(enc_all) = e.encode_all {
				let mut cfg = GenCfg { budget: 400, allow_skipped_variants: true, ..GenCfg::default() };
				let v = gen_val(&e.ty, &mut g, &mut cfg);
				let r = std::panic::catch_unwind(|| enc_all(&v));
				match r {
					Ok(o) => {
						let model = ref_encode(&e.ty, &o.as_model);
						let forms = [&o.encode, &o.encode_to_vec, &o.io_sink, &o.dyn_out, &o.using_encoded];
						let agree = forms.iter().all(|f| **f == o.encode) && o.encoded_size == o.encode.len();
						let _ = writeln!(
							out,
							"{}\tenc{}\t{:016x}\t{}\t{:016x}\t{}\t{}",
							e.name,
							i,
							fingerprint(&o.encode),
							if agree { "entry-points-agree" } else { "ENTRY-POINTS-DISAGREE" },
							fingerprint(&model),
							o.encode.len(),
							hex(&o.encode[..o.encode.len().min(24)])
						);
					},
					Err(_) => {
						let _ = writeln!(out, "{}\tenc{}\tPANIC\t-\t-\t-\t{}", e.name, i, v.brief(60));
					},
				}
			}
			// decoding: accept/reject, value and consumed length
			if let Some(dec) = e.decode_slice {
				let (mut bytes, family) = gen_input(&e.ty, &mut g, 96);
				if e.is_recursive() && bytes.len() > 256 {
					bytes.truncate(256);
				}
				let (reference, giant) = ref_decode_ex(&e.ty, &bytes);
				if giant > 1 << 16 {
					continue;
				}
				let real = std::panic::catch_unwind(|| dec(&bytes));
				let real_s = match &real {
					Ok((Ok(v), used)) => format!("ok:{:016x}:{used}", fingerprint(&format!("{:?}", normalize(&e.ty, v)))),
					Ok((Err(_), _)) => "err".to_string(),
					Err(_) => "PANIC".to_string(),
				};
				let model_s = match &reference {
					Ok((v, used)) => format!("ok:{:016x}:{used}", fingerprint(&format!("{:?}", normalize(&e.ty, v)))),
					Err(_) => "err".to_string(),
				};
				let _ = writeln!(out, "{}\tdec{}\t{}\t{}\t{}\t{}\t{}", e.name, i, real_s, family, model_s, bytes.len(), hex(&bytes[..bytes.len().min(24)]));
				// limited decoding: the tracked usage and the accept/reject decisions under memory and depth limits must
				// not depend on the configuration either (no reference here: the line is compared across configurations)
				if let (Some(mem), Some(depth)) = (e.mem, e.depth) {
					let lim = std::panic::catch_unwind(|| {
						let u = mem(&bytes, usize::MAX);
						let used = u.used;
						let at = |l: usize| mem(&bytes, l).result.is_ok();
						let d = |l: u32| depth(&bytes, l).0.is_ok();
						format!(
							"U={used}:{}{}{}:d{}{}{}{}",
							at(used / 2) as u8,
							at(used.saturating_sub(1)) as u8,
							at(used.saturating_add(1)) as u8,
							d(0) as u8,
							d(1) as u8,
							d(2) as u8,
							d(3) as u8
						)
					})
					.unwrap_or_else(|_| "PANIC".to_string());
					let _ = writeln!(out, "{}\tlim{}\t{}\tlimits\t{}\t{}\t{}", e.name, i, lim, lim, bytes.len(), hex(&bytes[..bytes.len().min(24)]));
				}
			}
		}
	}
	let _ = writeln!(out, "#done");
}
