//! C09 — memory requested while decoding is bounded by the input supplied.

use crate::{alloc, common::*};
use psc_bridge::zoo::{Entry, Phase};
use psc_model::{
	dec::ref_decode_ex,
	enc::{compact_bytes, ref_encode_counts},
	gen::Gen,
	runner::{guard, CheckFn},
	serde_json::json,
	stats::*,
	ty::*,
	valgen::*,
};

pub const ALLOWANCE_PER_LEVEL: usize = 64 * 1024;

pub fn targets(zoo: &[Entry]) -> Vec<&Entry> {
	zoo.iter().filter(|e| e.probe.is_some() && e.ty.static_depth() >= 1).collect()
}

/// The executable form of "linear in the input bytes plus a fixed allowance per nesting level".
pub fn bound(e: &Entry, input_len: usize) -> usize {
	let c = e.ty.expansion().max(1);
	// recursive types nest as deep as the input says (at least one byte per level): every such level may
	// hold one preallocation window, which keeps the bound linear in the input length
	let levels = e.ty.static_depth() + 1 + if e.ty.is_recursive() { input_len } else { 0 };
	8 * c * input_len + 64 * input_len + ALLOWANCE_PER_LEVEL * levels
}

pub fn hostile_input(ty: &Ty, g: &mut Gen) -> (Vec<u8>, bool, String) {
	let mut cfg = GenCfg { budget: 200, ..GenCfg::default() };
	let v = gen_val(ty, g, &mut cfg);
	let (bytes, counts) = ref_encode_counts(ty, &v);
	if counts.is_empty() {
		return (bytes, false, "no-count-in-value".into());
	}
	let c = g.pick(&counts).clone();
	let window = (16384 / c.elem_mem.max(1)) as u64;
	let mut n: u64 = match g.below(12) {
		// inside and around the preallocation window, in items and in bytes
		8 => 16384 - g.below(3) as u64,
		9 => window + 1 + g.below(3) as u64,
		10 => window * 2 + g.below(window as usize + 1) as u64,
		11 => 1000 + g.below(15384) as u64,
		0 | 1 => u64::from(u32::MAX),
		2 => u64::from(u32::MAX) - 1,
		3 => 1 << 30,
		4 => 1 << 24,
		5 => 1 << 16,
		6 => c.count + 1,
		_ => u64::from(g.u32()),
	};
	if c.family == "bits" && g.bool() {
		n = (1 << 29) - 1 - g.below(2) as u64;
	}
	// zero-width elements: giant counts are honest there; keep them cheap for the decoder (see DESIGN §9)
	if c.elem_min == 0 && c.family != "bits" && !(c.elem_is_unit && matches!(c.family, "vec" | "vecdeque" | "binaryheap")) {
		n = n.min(1 << 12);
	}
	if c.elem_min == 0 && c.elem_is_unit {
		n = n.min(1 << 26);
	}
	let mut out = bytes[..c.offset].to_vec();
	out.extend(compact_bytes(u128::from(n)));
	let rest = &bytes[c.offset + c.width..];
	let payload_len = match g.below(8) {
		0 => 0,
		1 => g.below(64),
		2 => 1024,
		3 => 16 * 1024 + g.below(3),
		4 => 64 * 1024,
		_ => rest.len(),
	};
	let before = out.len();
	match g.below(4) {
		0 => out.extend(std::iter::repeat(0u8).take(payload_len)),
		1 => {
			let mut p = vec![0u8; payload_len];
			g.stream().fill(&mut p);
			out.extend(p);
		},
		_ => {
			// plausible payload: the original element encodings, repeated
			if rest.is_empty() {
				out.extend(std::iter::repeat(1u8).take(payload_len));
			} else {
				while out.len() - before < payload_len.max(rest.len()) {
					out.extend_from_slice(rest);
				}
			}
		},
	}
	let supplied = out.len() - before;
	let promises_more = (n as u128) * (c.elem_min.max(1) as u128) >= 2 * supplied as u128 && c.elem_min > 0 || (c.family == "bits" && n / 8 >= 2 * supplied as u64);
	(out, promises_more, format!("{}@level{}:count={n}", c.family, c.level))
}

pub fn check_input(e: &Entry, bytes: &[u8], kind: u8, hostile: bool, label: &str, stats: &mut Stats) -> Result<(), Violation> {
	if e.ty.has_zero_width_sized_elems() {
		let (_, giant) = ref_decode_ex(&e.ty, bytes);
		if giant > 64 {
			// the count is honestly backed (zero-width encoding) and the value legitimately has that many
			// sized elements / nodes: outside the bound, business of decode_with_mem_limit (C12)
			stats.exclude("zero-width-encoding-with-sized-elements");
			return Ok(());
		}
	}
	let (_, giant) = ref_decode_ex(&e.ty, bytes);
	if giant > crate::c03::GIANT_ZW_CAP {
		stats.exclude("zero-width-elements-giant-count");
		return Ok(());
	}
	let t0 = std::time::Instant::now();
	let probe = e.probe.unwrap();
	let mut at_decoded = alloc::Snapshot::default();
	let ok = guard(|| {
		probe(bytes, kind, &mut |p| match p {
			Phase::Start => alloc::start(),
			Phase::Decoded => at_decoded = alloc::read(),
			Phase::Dropped => {
				alloc::stop();
			},
		})
	});
	alloc::stop();
	let ok = ok.map_err(|p| Violation::new(format!("C09/panic/{}", e.ty.family()), format!("type {}: {p}", e.name)))?;
	if std::env::var_os("VERIF_C09_TIMING").is_some() {
		stats.max(&format!("ms:{}:{}", e.name, label.split(':').next().unwrap_or("")), t0.elapsed().as_secs_f64() * 1000.0);
	}
	let b = bound(e, bytes.len());
	let peak = at_decoded.peak_above_start.max(0) as usize;
	let kind_name = ["slice", "unknown-length", "shared-buffer"][usize::from(kind.min(2))];
	stats.eval();
	stats.class(&format!("input:{kind_name}"));
	stats.class(&format!("family:{}", e.ty.family()));
	stats.class(if ok { "outcome:ok" } else { "outcome:err" });
	if hostile {
		stats.class("count promises >= 2x the data supplied");
		stats.class(&format!("hostile:{}", label.split(':').next().unwrap_or("")));
		stats.nontrivial(&(e.name, bytes.len(), label, kind));
	}
	stats.max("max_ratio_observed(peak/bound)", peak as f64 / b as f64);
	if std::env::var_os("VERIF_C09_TIMING").is_some() {
		stats.max(&format!("ratio:{}", e.name), peak as f64 / b as f64);
	}
	stats.max("max_ratio_observed(max_request/bound)", at_decoded.max_request as f64 / b as f64);
	stats.sample(|| json!({"type": e.name, "input_len": bytes.len(), "head": hex(&bytes[..bytes.len().min(24)]), "tamper": label, "input": kind_name, "peak_live": peak, "max_request": at_decoded.max_request, "bound": b, "ok": ok}));
	if peak > b || at_decoded.max_request > b {
		return Err(Violation::new(
			format!("C09/unbounded-request/{}/{}", e.ty.family(), kind_name),
			format!(
				"type {} ({kind_name} input, {} bytes, {label}): peak live heap {} bytes, largest single request {} bytes, bound {} (= 8*{}*len + 64*len + 64KiB*{})\ninput head {}",
				e.name,
				bytes.len(),
				peak,
				at_decoded.max_request,
				b,
				e.ty.expansion().max(1),
				e.ty.static_depth() + 1,
				hex(&bytes[..bytes.len().min(64)])
			),
		));
	}
	Ok(())
}

pub fn tape_checks(ctx: &Ctx) -> Vec<(&'static str, Box<CheckFn<'_>>)> {
	let entries = targets(&ctx.zoo);
	vec![(
		"hostile-counts",
		Box::new(move |g: &mut Gen, stats: &mut Stats| {
			let e = pick_entry(g, &entries);
			let kind = g.below(3) as u8;
			if g.chance(40) {
				// ordinary mutated input as well
				let (mut bytes, family) = psc_model::mutate::gen_input(&e.ty, g, 256);
				if e.is_recursive() && bytes.len() > 256 {
					bytes.truncate(256);
				}
				return check_input(e, &bytes, kind, false, family, stats);
			}
			let (mut bytes, hostile, label) = hostile_input(&e.ty, g);
			if e.is_recursive() && bytes.len() > 4096 {
				bytes.truncate(4096);
			}
			check_input(e, &bytes, kind, hostile, &label, stats)
		}),
	)]
}

pub fn budget(_name: &str) -> (u32, u32, usize) {
	(400_000, 10, 512)
}

pub fn run(ctx: &Ctx) -> (Level, Report) {
	let mut report = Report::default();
	crate::worker::run_in_worker(ctx, "hostile-counts", "C09/allocation-refused-or-crash", &mut report);
	(
		Level {
			level: "exploration",
			rule: "every zoo type containing a sequence/map/list/heap/deque/string/bit-sequence/byte-buffer: a valid encoding whose count at a generated \
nesting position is replaced by 2^32-1, 2^32-2, 2^30, 2^24, 2^16, count+1, counts in and around the 16 KiB window (16384 items, window+1.., 1000..16384) or a random u32 (bit sequences also 2^29-1), followed by 0..64 KiB of \
zero / random / plausible payload, over slice, unknown-length and shared-buffer inputs; plus ordinary mutated inputs. Oracle: a counting \
global allocator (per-thread) around the decode call alone: peak live bytes and the largest single request must stay below \
8*c_T*len + 64*len + 64 KiB*(depth_T+1), where c_T is the type's largest in-memory/encoded element size ratio; requests above 3 GiB are refused, \
which kills the worker process (recovered and reported by the parent). Non-trivial = the claimed count promises at least twice the data supplied.",
			assumptions: vec![
				"allocation observed through the global allocator on a 64-bit target",
				"zero-width encodings of sized elements (LinkedList<()>, Vec of all-skipped structs) are excluded from the bound (counted in excluded)",
				"the allowance (64 KiB per nesting level) is 4x the crate's current 16 KiB window: the property only requires a fixed allowance",
			],
		},
		report,
	)
}
