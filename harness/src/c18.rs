//! C18 — length peeking and skipping agree with full decoding.

use crate::common::*;
use psc_bridge::zoo::Entry;
use psc_model::{
	dec::{dec_compact, ref_decode_ex},
	gen::Gen,
	mutate::gen_input,
	runner::{guard, CheckFn},
	serde_json::json,
	stats::*,
	ty::*,
	valgen::*,
};

fn leading_len(ty: &Ty, v: &Val) -> u64 {
	match (ty, v) {
		(Ty::Tuple(ts), Val::Tuple(xs)) => leading_len(&ts[0], &xs[0]),
		(_, v) => v.seq_len(),
	}
}

pub fn check_len_value(e: &Entry, v: &Val, stats: &mut Stats) -> Result<(), Violation> {
	let (bytes, as_model) = guard(|| (e.encode.unwrap())(v))
		.map_err(|p| Violation::new(format!("C18/panic/encode/{}", e.ty.family()), format!("type {}: {p}", e.name)))?;
	let got = guard(|| (e.decode_len.unwrap())(&bytes))
		.map_err(|p| Violation::new(format!("C18/panic/len/{}", e.ty.family()), format!("type {}: len panicked: {p}", e.name)))?;
	let want = leading_len(&e.ty, &as_model);
	stats.eval();
	stats.class("len-of-encoded-value");
	stats.class(&format!("len:{}", count_class(want)));
	if want >= 64 {
		stats.nontrivial(&(e.name, want, "len"));
	}
	stats.sample(|| json!({"relation": "len(encode(v)) == v.len()", "type": e.name, "len": want}));
	if got != Some(want as usize) {
		return Err(Violation::new(
			format!("C18/len/{}", e.ty.family()),
			format!("type {}: DecodeLength::len = {got:?} but the collection has {want} elements\nbytes {}", e.name, hex(&bytes)),
		));
	}
	Ok(())
}

pub fn check_len_bytes(e: &Entry, bytes: &[u8], stats: &mut Stats) -> Result<(), Violation> {
	let got = guard(|| (e.decode_len.unwrap())(bytes))
		.map_err(|p| Violation::new(format!("C18/panic/len/{}", e.ty.family()), format!("type {}: len panicked: {p}", e.name)))?;
	let want = dec_compact(bytes, 32).ok().map(|(v, _)| v as usize);
	stats.eval();
	stats.class("len-of-arbitrary-bytes");
	if bytes.len() >= 2 {
		stats.nontrivial(&(e.name, bytes, "len-bytes"));
	}
	if got != want {
		return Err(Violation::new(
			format!("C18/len-bytes/{}", e.ty.family()),
			format!("type {}: DecodeLength::len({}) = {got:?}, leading compact u32 is {want:?}", e.name, hex(bytes)),
		));
	}
	Ok(())
}

pub fn check_skip(e: &Entry, bytes: &[u8], family: &str, stats: &mut Stats) -> Result<(), Violation> {
	let (_, giant) = ref_decode_ex(&e.ty, bytes);
	if giant > crate::c03::GIANT_ZW_CAP {
		stats.exclude("zero-width-elements-giant-count");
		return Ok(());
	}
	let d = guard(|| (e.decode_slice.unwrap())(bytes))
		.map_err(|p| Violation::new(format!("C18/panic/decode/{}", e.ty.family()), format!("type {}: {p}", e.name)))?;
	let s = guard(|| (e.skip.unwrap())(bytes)).map_err(|p| {
		Violation::new(format!("C18/panic/skip/{}", e.ty.family()), format!("type {}: skip panicked: {p}\nbytes {}", e.name, hex(bytes)))
	})?;
	stats.eval();
	stats.class("skip-vs-decode");
	stats.class(&format!("skip-input:{family}"));
	stats.class(if (e.fixed_size.unwrap())().is_some() { "skip:fixed-size-type" } else { "skip:variable-size-type" });
	if !bytes.is_empty() && family != "valid" {
		stats.nontrivial(&(e.name, bytes, "skip"));
	}
	stats.sample(|| json!({"relation": "skip == decode (outcome, position)", "type": e.name, "bytes": hex(bytes), "decode_ok": d.0.is_ok()}));
	if d.0.is_ok() != s.0 {
		return Err(Violation::new(
			format!("C18/skip-outcome/{}", e.ty.family()),
			format!(
				"type {}: decode {} but skip {}\nbytes {}",
				e.name,
				if d.0.is_ok() { "succeeds" } else { "fails" },
				if s.0 { "succeeds" } else { "fails" },
				hex(bytes)
			),
		));
	}
	if s.0 && s.1 != d.1 {
		return Err(Violation::new(
			format!("C18/skip-position/{}", e.ty.family()),
			format!("type {}: decode consumes {} bytes, skip {}\nbytes {}", e.name, d.1, s.1, hex(bytes)),
		));
	}
	Ok(())
}

pub fn tape_checks(ctx: &Ctx) -> Vec<(&'static str, Box<CheckFn<'_>>)> {
	let lens: Vec<&Entry> = ctx.zoo.iter().filter(|e| e.decode_len.is_some()).collect();
	let lens2 = lens.clone();
	let decs = crate::c03::decodable(&ctx.zoo);
	vec![
		(
			"len-values",
			Box::new(move |g: &mut Gen, stats: &mut Stats| {
				let e = pick_entry(g, &lens);
				let mut cfg = GenCfg { budget: 40_000, ..GenCfg::default() };
				let v = gen_val(&e.ty, g, &mut cfg);
				check_len_value(e, &v, stats)
			}),
		),
		(
			"len-bytes",
			Box::new(move |g: &mut Gen, stats: &mut Stats| {
				let e = pick_entry(g, &lens2);
				let (bytes, _) = gen_input(&Ty::Compact(32), g, 8);
				check_len_bytes(e, &bytes, stats)
			}),
		),
		(
			"skip",
			Box::new(move |g: &mut Gen, stats: &mut Stats| {
				let e = pick_entry(g, &decs);
				let (mut bytes, family) = gen_input(&e.ty, g, 128);
				if e.is_recursive() && bytes.len() > 256 {
					bytes.truncate(256);
				}
				check_skip(e, &bytes, family, stats)
			}),
		),
	]
}

pub fn run(ctx: &Ctx) -> (Level, Report) {
	let mut report = Report::default();
	for (name, check) in tape_checks(ctx) {
		let quick = match name {
			"len-values" => 40_000,
			"len-bytes" => 60_000,
			_ => 150_000,
		};
		let out = ctx.random(name, quick, 20, 1024, &*check);
		report.absorb(name, out);
	}
	// exhaustive: all strings of length 0..=2 through `len` for one type per collection kind
	for name in ["Vec<u8>", "VecDeque<u8>", "LinkedList<u8>", "BinaryHeap<u8>", "BTreeSet<u8>", "BTreeMap<u8, u8>", "(Vec<u16>, u8, u8)"] {
		let e = ctx.entry(name);
		for len in 0..=2usize {
			for x in 0..(1u32 << (8 * len)) {
				let s = [x as u8, (x >> 8) as u8];
				if let Err(v) = check_len_bytes(e, &s[..len], &mut report.stats) {
					report.direct(&ctx.known, v, json!({"kind": "none"}));
				}
			}
		}
	}
	(
		Level {
			level: "exploration",
			rule: "len: values of all zoo types implementing DecodeLength (six collections, tuples of arity 1..18 led by a collection) with lengths in \
every compact class, len(encode(v)) == v.len(); arbitrary strings: len succeeds iff the leading compact u32 is valid (reference compact decoder), \
exhaustive over strings <= 2 bytes. skip: (decodable zoo type, byte string from the C03 families): skip and decode succeed/fail together and \
leave the same position (arrays with and without fixed element size). Non-trivial = length >= 64 / string >= 2 bytes / non-valid non-empty input.",
			assumptions: vec!["reference compact decoder (model) self-tested on published vectors"],
		},
		report,
	)
}
