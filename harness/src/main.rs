//! psc-verif: one subcommand per property.
//!   psc-verif <Cxx> quick|thorough
//!   psc-verif <Cxx> --replay <file>
//! Exit 0 = property held on everything explored; 1 = VIOLATION line(s) printed; 2 = inconclusive.


use psc_checks::{common::*, registry::tape_checks, *};

#[global_allocator]
static GLOBAL: psc_checks::alloc::Counting = psc_checks::alloc::Counting;
use psc_model::{
	runner::{install_quiet_panic_hook, run_tape},
	serde_json::Value,
	stats::*,
};

fn run_property(ctx: &Ctx) -> Option<(Level, Report)> {
	Some(match ctx.property {
		"C01" => c01::run(ctx),
		"C02" => c02::run(ctx),
		"C03" => c03::run(ctx),
		"C04" => c04::run(ctx),
		"C07" => c07::run(ctx),
		"C08" => c08::run(ctx),
		"C14" => c14::run(ctx),
		"C18" => c18::run(ctx),
		"C19" => c19::run(ctx),
		"C11" => c11::run(ctx),
		"C12" => c12::run(ctx),
		"C13" => c13::run(ctx),
		"C15" => c15::run(ctx),
		"C16" => c16::run(ctx),
		"C06" => c06::run(ctx),
		"C10" => c10::run(ctx),
		"C09" => c09::run(ctx),
		"C05" => programs::run_c05(ctx),
		"C17" => programs::run_c17(ctx),
		"C20" => c20::run(ctx),
		_ => return None,
	})
}

fn worker_budget(property: &str, name: &str) -> (u32, u32, usize) {
	match property {
		"C11" => c11::budget(name),
		"C09" => c09::budget(name),
		"C10" => c10::budget(name),
		_ => (1000, 10, 1024),
	}
}

fn replay_direct(ctx: &Ctx, doc: &Value) -> Option<Result<(), Violation>> {
	match ctx.property {
		"C03" => c03::replay_direct(ctx, doc),
		"C04" => c04::replay_direct(ctx, doc),
		"C20" => c20::replay_direct(ctx, doc),
		"C05" | "C13" | "C17" => programs::replay_program(ctx, doc),
		_ => None,
	}
}

fn replay(ctx: &Ctx, path: &str) -> i32 {
	let text = match std::fs::read_to_string(path) {
		Ok(t) => t,
		Err(e) => {
			eprintln!("cannot read replay {path}: {e}");
			return 2;
		},
	};
	let doc: Value = match psc_model::serde_json::from_str(&text) {
		Ok(d) => d,
		Err(e) => {
			eprintln!("replay {path} is not JSON: {e}");
			return 2;
		},
	};
	let result = if doc["kind"] == "tape" {
		let name = doc["check"].as_str().unwrap_or("");
		let tape = unhex(doc["tape"].as_str().unwrap_or(""));
		let checks = tape_checks(ctx);
		let Some((_, check)) = checks.iter().find(|(n, _)| *n == name) else {
			eprintln!("replay: property {} has no tape check named {name:?}", ctx.property);
			return 2;
		};
		if doc["in_worker"] == true {
			match worker::run_tape_in_child(ctx, name, &tape, &[]) {
				worker::TapeRun::Ok => Ok(()),
				worker::TapeRun::Viol(v) => Err(v),
				worker::TapeRun::Died(how) => Err(Violation::new(
					doc["signature"].as_str().unwrap_or("crash").to_string(),
					format!("the worker process dies on this case: {how}"),
				)),
				worker::TapeRun::Broken(b) => {
					eprintln!("INCONCLUSIVE replay: {b}");
					return 2;
				},
			}
		} else {
			let mut st = Stats::default();
			match run_tape(&**check, &tape, &mut st) {
				Ok(r) => r,
				Err(p) => {
					eprintln!("INCONCLUSIVE replay panicked in the harness: {p}");
					return 2;
				},
			}
		}
	} else if doc["kind"] == "fuzz-input" {
		match fuzz::replay_input(&doc) {
			Some(r) => r,
			None => {
				eprintln!("replay: cannot re-run the fuzz input (target not built?)");
				return 2;
			},
		}
	} else {
		match replay_direct(ctx, &doc) {
			Some(r) => r,
			None => {
				// cases found by a deterministic enumeration carry no tape: re-run the enumeration (quick tier)
				// and look for the same root-cause signature
				eprintln!("replay: re-running the {} quick tier and looking for signature {}", ctx.property, doc["signature"]);
				match run_property(ctx) {
					Some((_, report)) => match report.violations.iter().find(|(sig, _)| Some(sig.as_str()) == doc["signature"].as_str()) {
						Some((sig, d)) => Err(Violation::new(sig.clone(), d["detail"].as_str().unwrap_or("").to_string())),
						None => Ok(()),
					},
					None => {
						eprintln!("replay: unknown property {}", ctx.property);
						return 2;
					},
				}
			},
		}
	};
	match result {
		Ok(()) => {
			println!("replay {path}: property held on this case");
			0
		},
		Err(v) => {
			println!("VIOLATION property={} replay={path}", ctx.property);
			println!("signature {}", v.sig);
			println!("{}", v.detail);
			1
		},
	}
}

fn main() {
	let args: Vec<String> = std::env::args().collect();
	if args.len() < 3 {
		eprintln!("usage: psc-verif <Cxx> quick|thorough | psc-verif <Cxx> --replay <file>");
		std::process::exit(2);
	}
	install_quiet_panic_hook();
	self_test_or_exit();
	if args[1] == "--worker-random" || args[1] == "--worker-tape" || args[1] == "--worker-enum" || args[1] == "--worker-random-b" {
		// child side of the crash-recovering worker
		let property: &'static str = Box::leak(args[2].clone().into_boxed_str());
		let tier = if args[3] == "thorough" { Tier::Thorough } else { Tier::Quick };
		let ctx = Ctx::new(property, tier);
		let name = args[4].as_str();
		let checks = tape_checks(&ctx);
		let Some((_, check)) = checks.iter().find(|(n, _)| *n == name) else {
			eprintln!("worker: no check {name}");
			std::process::exit(2);
		};
		let code = if args[1] == "--worker-enum" {
			let n = match property {
				"C10" => c10::n_cases(),
				_ => 0,
			};
			worker::child_enum(n, &**check)
		} else if args[1] == "--worker-random-b" {
			// explicit budget (crash mode of any property)
			let n = |i: usize| args.get(i).and_then(|a| a.parse::<u64>().ok()).unwrap_or(0);
			worker::child_random(&ctx, name, n(5) as u32, n(6) as u32, n(7) as usize, &**check)
		} else if args[1] == "--worker-random" {
			let (q, f, t) = worker_budget(property, name);
			worker::child_random(&ctx, name, q, f, t, &**check)
		} else {
			worker::child_tape(&**check, &unhex(&args[5]))
		};
		std::process::exit(code);
	}
	let property: &'static str = Box::leak(args[1].clone().into_boxed_str());
	let code = if args[2] == "--replay" {
		let ctx = Ctx::new(property, Tier::Quick);
		replay(&ctx, args.get(3).map(|s| s.as_str()).unwrap_or(""))
	} else {
		let tier = match args[2].as_str() {
			"quick" => Tier::Quick,
			"thorough" => Tier::Thorough,
			other => {
				eprintln!("unknown tier {other}");
				std::process::exit(2);
			},
		};
		let ctx = Ctx::new(property, tier);
		match std::panic::catch_unwind(std::panic::AssertUnwindSafe(|| run_property(&ctx))) {
			Ok(Some((level, mut report))) => {
				// thorough tier: fixed-size libFuzzer campaigns (ASan, debug assertions) over the same check functions
				// replay tier: saved reproducers of earlier findings
				regress::run(&ctx, &mut report);
				fuzz::run_for_property(&ctx, &mut report, 2_000_000);
				finish(&ctx, level, report)
			},
			Ok(None) => {
				eprintln!("unknown property {property}");
				2
			},
			Err(_) => {
				eprintln!("INCONCLUSIVE property={property} harness panicked: {}", psc_model::runner::take_panic_message());
				2
			},
		}
	};
	std::process::exit(code);
}
