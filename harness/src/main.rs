fn main() {}
