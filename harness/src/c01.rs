//! C01 — encoded bytes conform to the SCALE wire format.

use crate::common::*;
use psc_bridge::zoo::Entry;
use psc_model::{
	enc::ref_encode_counts,
	gen::Gen,
	runner::{guard, parallel_map, CheckFn},
	serde_json::json,
	stats::*,
	ty::*,
	valgen::*,
};

pub fn encodable(zoo: &[Entry]) -> Vec<&Entry> {
	zoo.iter().filter(|e| e.encode.is_some()).collect()
}

/// Compare one value's real encoding with the reference encoding.
pub fn check_value(e: &Entry, v: &Val, stats: &mut Stats) -> Result<(), Violation> {
	let enc = e.encode.unwrap();
	let (bytes, as_model) = match guard(|| enc(v)) {
		Ok(x) => x,
		Err(p) =>
			return Err(Violation::new(
				format!("C01/panic/{}", e.ty.family()),
				format!("type {}: encode panicked: {p}\nvalue {}", e.name, v.brief(300)),
			)),
	};
	let (expected, counts) = ref_encode_counts(&e.ty, &as_model);
	stats.eval();
	stats.class(&format!("family:{}", e.ty.family()));
	for c in &counts {
		stats.class(&format!("prefix:{}", count_class(c.count)));
	}
	if bytes.len() >= 2 && bytes.iter().any(|b| *b != 0) {
		stats.nontrivial(&(e.name, &bytes));
	}
	stats.sample(|| json!({"type": e.name, "value": v.brief(120), "bytes": hex(&bytes)}));
	// the other ways of producing the bytes (streaming into a sink, the borrowed-slice callback) are held to the
	// same reference: a nested value is always written through `encode_to`, a top-level one through `encode`
	if bytes == expected && bytes.len() <= 4096 {
		if let Some(all) = e.encode_all {
			if let Ok(o) = guard(|| all(v)) {
				for (what, got) in [("encode_to(Vec)", &o.encode_to_vec), ("encode_to(dyn Output)", &o.dyn_out), ("using_encoded", &o.using_encoded)] {
					if *got != expected {
						return Err(Violation::new(
							format!("C01/bytes-{}/{}", sanitize(what), e.ty.family()),
							format!(
								"type {}: {what} produces bytes that differ from the SCALE reference\nvalue    {}\ncrate    {}\nreference {}",
								e.name,
								as_model.brief(300),
								hex(got),
								hex(&expected)
							),
						));
					}
				}
			}
		}
	}
	if bytes != expected {
		let at = bytes.iter().zip(&expected).position(|(a, b)| a != b).unwrap_or(bytes.len().min(expected.len()));
		return Err(Violation::new(
			format!("C01/bytes/{}", e.ty.family()),
			format!(
				"type {}: encoding differs from the SCALE reference at byte {at}\nvalue    {}\ncrate    {}\nreference {}",
				e.name,
				as_model.brief(300),
				hex(&bytes),
				hex(&expected)
			),
		));
	}
	Ok(())
}

pub fn tape_checks(ctx: &Ctx) -> Vec<(&'static str, Box<CheckFn<'_>>)> {
	let entries = encodable(&ctx.zoo);
	let big = ctx.tier == Tier::Thorough;
	vec![(
		"values",
		Box::new(move |g: &mut Gen, stats: &mut Stats| {
			let e = pick_entry(g, &entries);
			let mut cfg = GenCfg {
				budget: if big { 70_000 } else { 50_000 },
				allow_skipped_variants: true,
				..GenCfg::default()
			};
			let v = gen_val(&e.ty, g, &mut cfg);
			check_value(e, &v, stats)
		}),
	)]
}

fn exhaustive(ctx: &Ctx, report: &mut Report) {
	// all values of the small types
	let jobs: Vec<(&str, Vec<Val>)> = vec![
		("u8", (0..=255u128).map(Val::U).collect()),
		("i8", (-128..=127i128).map(Val::I).collect()),
		("bool", vec![Val::Bool(false), Val::Bool(true)]),
		("OptionBool", vec![Val::OptBool(None), Val::OptBool(Some(true)), Val::OptBool(Some(false))]),
		("u16", (0..=65535u128).map(Val::U).collect()),
		("i16", (-32768..=32767i128).map(Val::I).collect()),
		("Compact<u8>", (0..=255u128).map(Val::U).collect()),
		("Compact<u16>", (0..=65535u128).map(Val::U).collect()),
		("Option<bool>", vec![Val::Opt(None), Val::some(Val::Bool(false)), Val::some(Val::Bool(true))]),
		(
			"Result<u8, bool>",
			(0..=255u128).map(|x| Val::ok(Val::U(x))).chain([Val::err(Val::Bool(false)), Val::err(Val::Bool(true))]).collect(),
		),
		("NonZeroU8", (1..=255u128).map(Val::U).collect()),
		("NonZeroI16", (-32768..=32767i128).filter(|x| *x != 0).map(Val::I).collect()),
	];
	let results = parallel_map(jobs.len(), ctx.threads, |i| {
		let (name, vals) = &jobs[i];
		let e = ctx.entry(name);
		let mut st = Stats::default();
		let mut first = None;
		for v in vals {
			if let Err(viol) = check_value(e, v, &mut st) {
				if first.is_none() {
					first = Some((viol, v.clone()));
				}
			}
		}
		st.class_n(&format!("exhaustive:{name}"), vals.len() as u64);
		(st, first)
	});
	for (i, (st, first)) in results.into_iter().enumerate() {
		report.stats.merge(st);
		if let Some((v, val)) = first {
			report.direct(&ctx.known, v, json!({"kind": "value", "type": jobs[i].0, "value_debug": val.brief(200)}));
		}
	}
	// bit sequences of every length 0..=130 for all eight store/order pairs (all-ones, alternating)
	let bit_types: Vec<&Entry> =
		ctx.zoo.iter().filter(|e| e.encode.is_some() && matches!(e.ty, Ty::Bits { .. })).collect();
	for e in bit_types {
		let mut first = None;
		for n in 0..=130usize {
			for pat in 0..3 {
				let bits: Vec<bool> = (0..n).map(|i| match pat { 0 => true, 1 => i % 2 == 0, _ => i % 3 == 0 }).collect();
				let v = Val::Bits(bits);
				if let Err(viol) = check_value(e, &v, &mut report.stats) {
					first.get_or_insert((viol, v));
				}
			}
		}
		if let Some((v, val)) = first {
			report.direct(&ctx.known, v, json!({"kind": "value", "type": e.name, "value_debug": val.brief(200)}));
		}
	}
	// sequences whose count prefix falls in each compact class
	for (name, lens) in [
		("Vec<u8>", vec![63usize, 64, 16383, 16384, 16385, 70_000]),
		("Vec<()>", vec![63, 64, 16383, 16384, (1 << 20) + 1]),
		("String", vec![63, 64, 16383, 16384]),
		("Vec<u32>", vec![63, 64, 16383, 16384]),
		("BTreeSet<u32>", vec![64, 16384]),
		("LinkedList<u8>", vec![64, 16384]),
		("VecDeque<u32>", vec![64, 16384]),
		("BinaryHeap<u32>", vec![64, 16384]),
	] {
		let e = ctx.entry(name);
		for n in lens {
			let tape = [1u8; 64];
			let mut g = Gen::new(&tape);
			let v = match &e.ty {
				Ty::Seq { elem, .. } => {
					let mut cfg = GenCfg { budget: n, ..GenCfg::default() };
					let v = gen_elems(elem, n, &mut g, &mut cfg);
					if matches!(e.ty, Ty::Seq { kind: SeqKind::BTreeSet, .. }) {
						Val::Seq((0..n as u128).map(Val::U).collect())
					} else {
						v
					}
				},
				Ty::Str => Val::Bytes(vec![b'a'; n]),
				_ => unreachable!(),
			};
			if let Err(viol) = check_value(e, &v, &mut report.stats) {
				report.direct(&ctx.known, viol, json!({"kind": "value", "type": name, "value_debug": v.brief(100)}));
			}
		}
	}
	if ctx.tier == Tier::Thorough {
		// the largest representable bit sequence (2^29-1 bits, 64 MiB): encoding must not panic, and must be the
		// compact count followed by zero-padded words (checked on the prefix, the set bits and the length)
		{
			use bitvec::{order::Lsb0, vec::BitVec};
			use parity_scale_codec::Encode;
			let n = (1usize << 29) - 1;
			let r = guard(|| {
				let mut bv: BitVec<u8, Lsb0> = BitVec::repeat(false, n);
				bv.set(0, true);
				bv.set(n - 1, true);
				bv.encode()
			});
			report.stats.eval();
			report.stats.class("bit sequence of 2^29-1 bits");
			let ok = match &r {
				Ok(b) =>
					b.len() == 4 + (n + 7) / 8 &&
						b[..4] == psc_model::enc::compact_bytes(n as u128)[..] &&
						b[4] == 1 && b[b.len() - 1] == 0x40 &&
						b[5..b.len() - 1].iter().all(|x| *x == 0),
				Err(_) => false,
			};
			if !ok {
				report.direct(
					&ctx.known,
					Violation::new("C01/bits/max-length", format!("BitVec<u8, Lsb0> of 2^29-1 bits: {}", match r { Ok(b) => format!("wrong encoding of {} bytes", b.len()), Err(p) => format!("encode panicked: {p}") })),
					json!({"kind": "none"}),
				);
			}
		}
		// "never panics below the representable count": zero-sized elements are free
		let e = ctx.entry("Vec<()>");
		for n in [(1u64 << 30) - 1, 1 << 30, u64::from(u32::MAX)] {
			let v = Val::Repeat(n, Box::new(Val::Unit));
			if let Err(viol) = check_value(e, &v, &mut report.stats) {
				report.direct(&ctx.known, viol, json!({"kind": "value", "type": "Vec<()>", "value_debug": v.brief(100)}));
			}
		}
	}
}

pub fn run(ctx: &Ctx) -> (Level, Report) {
	let mut report = Report::default();
	for (name, check) in tape_checks(ctx) {
		let out = ctx.random(name, 600_000, 10, 1024, &*check);
		report.absorb(name, out);
	}
	exhaustive(ctx, &mut report);
	(
		Level {
			level: "exploration",
			rule: "random driver: (zoo type, value) from boundary-biased tape generators; enumerating driver: every value of \
u8/i8/u16/i16/bool/OptionBool/Compact<u8>/Compact<u16>/Option<bool>/Result<u8,bool>/NonZeroU8/NonZeroI16, bit sequences of every length 0..=130 x 3 \
patterns x 8 store/order pairs, sequences with counts in each compact class. Oracle: bytes == independent SCALE reference encoder. \
Non-trivial = encoding of >= 2 bytes that is not all zero; distinct by (type, bytes).",
			assumptions: vec![
				"the reference model agrees with the SCALE specification (self-tested against published vectors at start-up)",
				"heap encodings are compared against the heap's own iteration order",
			],
		},
		report,
	)
}
