//! C15 — appending to an encoded sequence equals re-encoding the whole.

use crate::common::*;
use parity_scale_codec::{Encode, EncodeAppend, EncodeLike, Ref};
use psc_bridge::{derived::{Marker, MarkerPair, Named}, Modeled};
use psc_model::{
	dec::dec_compact,
	enc::{compact_bytes, ref_encode},
	gen::Gen,
	runner::{guard, CheckFn},
	serde_json::json,
	stats::*,
	ty::*,
	valgen::*,
};
use std::collections::VecDeque;

fn append<T: Encode, I, L>(deque: bool, enc: Vec<u8>, iter: I) -> Result<Vec<u8>, String>
where
	I: IntoIterator<Item = L>,
	L: EncodeLike<T>,
	I::IntoIter: ExactSizeIterator,
{
	if deque {
		<VecDeque<T> as EncodeAppend>::append_or_new(enc, iter).map_err(|e| e.to_string())
	} else {
		<Vec<T> as EncodeAppend>::append_or_new(enc, iter).map_err(|e| e.to_string())
	}
}

fn width_class(n: u64) -> u8 {
	compact_bytes(u128::from(n)).len() as u8
}

pub fn history<T>(g: &mut Gen, stats: &mut Stats) -> Result<(), Violation>
where
	T: Modeled + Encode + Clone + EncodeLike<T>,
{
	let elem_ty = T::ty();
	let seq_ty = Ty::vec(elem_ty.clone(), std::mem::size_of::<T>());
	let tname = elem_ty.short_name();
	let deque = g.bool();
	// start: empty input, or the encoding of a generated sequence whose count sits next to a prefix-width boundary
	let cheap = matches!(elem_ty, Ty::U(_));
	let start_count = match g.below(8) {
		0 => None,
		1 => Some(0usize),
		2 => Some(63 - g.below(3)),
		3 => Some(64),
		4 if cheap => Some((1 << 14) - 1 - g.below(3)),
		5 if cheap => Some(1 << 14),
		_ => Some(g.below(70)),
	};
	let mut cfg = GenCfg { budget: 1 << 20, ..GenCfg::default() };
	let mut model: Vec<Val> = vec![];
	let mut enc: Vec<u8> = vec![];
	if let Some(n) = start_count {
		let v = gen_elems(&elem_ty, n, g, &mut GenCfg { budget: n.max(1), ..cfg });
		model = v.seq_items();
		enc = ref_encode(&seq_ty, &v);
	}
	let steps = 1 + g.below(5);
	let mut trace = vec![format!("start={start_count:?}")];
	let mut nontrivial = false;
	for step in 0..steps {
		let old = model.len() as u64;
		let batch = match g.below(8) {
			0 => 0,
			1 => 1,
			2 => 2 + g.below(3),
			// land exactly on / just past the next width boundary
			3 => (64u64.saturating_sub(old)) as usize % 200,
			4 if cheap => ((1u64 << 14).saturating_sub(old)) as usize % 20000 + g.below(2),
			_ => g.below(9),
		};
		cfg.budget = batch.max(1);
		let items_val = gen_elems(&elem_ty, batch, g, &mut cfg).seq_items();
		let items: Vec<T> = items_val.iter().map(T::from_val).collect();
		let form = g.below(7);
		let form_name = ["&Vec<T>", "Vec<T>", "iter::once(&T)", "Box<T>", "Ref<T,T>", "&[T]", "&&T"][form];
		let input = enc.clone();
		let call = || -> Result<Vec<u8>, String> {
			match form {
				0 => append::<T, _, _>(deque, input, &items),
				1 => append::<T, _, _>(deque, input, items.clone()),
				2 =>
					if items.len() == 1 {
						append::<T, _, _>(deque, input, std::iter::once(&items[0]))
					} else {
						append::<T, _, _>(deque, input, items.iter())
					},
				3 => append::<T, _, _>(deque, input, items.iter().map(|x| Box::new(x.clone()))),
				4 => append::<T, _, _>(deque, input, items.iter().map(Ref::<T, T>::from)),
				5 => append::<T, _, _>(deque, input, &items[..]),
				_ => {
					let refs: Vec<&T> = items.iter().collect();
					append::<T, _, _>(deque, input, refs.iter())
				},
			}
		};
		let got = guard(call).map_err(|p| {
			Violation::new(format!("C15/panic/{tname}"), format!("append_or_new panicked at step {step}: {p}\ntrace {trace:?}"))
		})?;
		model.extend(items_val);
		let new = model.len() as u64;
		trace.push(format!("+{batch} via {form_name} -> {new}"));
		if width_class(old) != width_class(new) || (batch >= 2 && old > 0) {
			nontrivial = true;
		}
		if width_class(old) != width_class(new) {
			stats.class("step changes prefix width");
		}
		stats.class(&format!("form:{form_name}"));
		let expected = ref_encode(&seq_ty, &Val::Seq(model.clone()));
		match got {
			Ok(bytes) if bytes == expected => enc = bytes,
			Ok(bytes) => {
				let at = bytes.iter().zip(&expected).position(|(a, b)| a != b).unwrap_or(bytes.len().min(expected.len()));
				return Err(Violation::new(
					format!("C15/bytes/{}", if width_class(old) != width_class(new) { "width-change" } else { "same-width" }),
					format!(
						"{}<{tname}> history {trace:?}: result differs from encoding the whole sequence at byte {at}\ngot      {}\nexpected {}",
						if deque { "VecDeque" } else { "Vec" },
						hex(&bytes),
						hex(&expected)
					),
				));
			},
			Err(e) =>
				return Err(Violation::new(
					format!("C15/error/{tname}"),
					format!("history {trace:?}: append_or_new failed on valid input: {e}"),
				)),
		}
	}
	stats.eval();
	stats.class(&format!("item:{tname}"));
	stats.class(if deque { "target:VecDeque" } else { "target:Vec" });
	if nontrivial {
		stats.nontrivial(&(tname.as_str(), deque, &trace));
	}
	stats.sample(|| json!({"item": tname, "target": if deque { "VecDeque" } else { "Vec" }, "history": trace}));
	Ok(())
}

/// Zero-sized items: the encoding is the bare count, so counts around 2^30 and 2^32 cost nothing.
pub fn unit_history(g: &mut Gen, stats: &mut Stats) -> Result<(), Violation> {
	let deque = g.bool();
	let start: u64 = match g.below(8) {
		0 => (1 << 30) - 1 - g.below(3) as u64,
		1 => 1 << 30,
		2 => u64::from(u32::MAX) - g.below(8) as u64,
		3 => (1 << 14) - 1,
		4 => 63,
		5 => 1,
		6 => 0,
		_ => u64::from(g.u32()),
	};
	let batch: u64 = match g.below(8) {
		0 => 0,
		1 => 1,
		2 => g.below(16) as u64,
		3 => (1u64 << 32) + g.below(8) as u64,
		4 => (1u64 << 32) - g.below(8) as u64,
		5 => (1u64 << 33) + u64::from(g.u16()),
		6 => (u64::from(u32::MAX).saturating_sub(start) + g.below(3) as u64).saturating_sub(1),
		_ => u64::from(g.u32()) >> g.below(32),
	};
	let empty_start = start == 0 && g.bool();
	let enc = if empty_start { vec![] } else { compact_bytes(u128::from(start)) };
	let total = start + batch;
	let input = enc.clone();
	let got = guard(|| append::<(), _, _>(deque, input, (0..batch as usize).map(|_| ()))).map_err(|p| {
		Violation::new("C15/panic/()", format!("append_or_new panicked appending {batch} unit items to a count of {start}: {p}"))
	})?;
	stats.eval();
	stats.class("item:()");
	stats.class(if batch > u64::from(u32::MAX) { "batch > u32::MAX" } else if total > u64::from(u32::MAX) { "sum > u32::MAX" } else { "representable" });
	if width_class(start.min(u64::from(u32::MAX))) != width_class(total.min(u64::from(u32::MAX))) || total > u64::from(u32::MAX) {
		stats.nontrivial(&(start, batch, deque));
	}
	stats.sample(|| json!({"item": "()", "start_count": start, "batch": batch, "empty_input": empty_start}));
	if total > u64::from(u32::MAX) {
		match got {
			Err(_) => Ok(()),
			Ok(bytes) => Err(Violation::new(
				if batch > u64::from(u32::MAX) { "C15/overflow/batch-len-truncated" } else { "C15/overflow/sum" },
				format!(
					"appending {batch} items to an encoded sequence of {start}: the combined count {total} is not representable, yet the call returned Ok with bytes {} (count {:?})",
					hex(&bytes),
					dec_compact(&bytes, 32).ok().map(|x| x.0)
				),
			)),
		}
	} else {
		let expected = compact_bytes(u128::from(total));
		match got {
			Ok(bytes) if bytes == expected => Ok(()),
			other => Err(Violation::new(
				"C15/bytes/unit",
				format!("appending {batch} unit items to a count of {start}: got {:?}, expected {}", other.map(|b| hex(&b)), hex(&expected)),
			)),
		}
	}
}

/// Input that does not begin with a valid count must be rejected.
pub fn invalid_start(g: &mut Gen, stats: &mut Stats) -> Result<(), Violation> {
	let (start, _) = psc_model::mutate::gen_input(&Ty::Compact(32), g, 8);
	let valid = dec_compact(&start, 32).is_ok();
	if start.is_empty() {
		return Ok(());
	}
	// the batch may be empty: validation of the existing prefix must not depend on it
	let items: Vec<u8> = vec![1u8, 2, 3][..g.below(4)].to_vec();
	let k = items.len() as u128;
	let deque = g.bool();
	let input = start.clone();
	let got = guard(|| append::<u8, _, _>(deque, input, &items))
		.map_err(|p| Violation::new("C15/panic/invalid-start", format!("append_or_new panicked on start {}: {p}", hex(&start))))?;
	stats.eval();
	stats.class(if valid { "start: valid count" } else { "start: invalid count" });
	stats.class(&format!("raw-start batch size {}", items.len()));
	if !valid {
		stats.nontrivial(&start);
	}
	stats.sample(|| json!({"relation": "invalid start rejected", "start": hex(&start), "valid_count": valid}));
	if !valid && got.is_ok() {
		return Err(Violation::new(
			"C15/invalid-start-accepted",
			format!("input {} does not begin with a valid compact u32 count, yet append_or_new returned Ok({})", hex(&start), hex(&got.unwrap())),
		));
	}
	if valid {
		// the count is valid: the result must be the count + k, the old payload, then the items
		let (old, used) = dec_compact(&start, 32).unwrap();
		if old + k <= u128::from(u32::MAX) {
			let mut expected = compact_bytes(old + k);
			expected.extend_from_slice(&start[used..]);
			expected.extend_from_slice(&items);
			if got.as_ref().ok() != Some(&expected) {
				return Err(Violation::new(
					"C15/bytes/raw-start",
					format!("start {}: got {:?}, expected {}", hex(&start), got.map(|b| hex(&b)), hex(&expected)),
				));
			}
		}
	}
	Ok(())
}

pub fn tape_checks(_ctx: &Ctx) -> Vec<(&'static str, Box<CheckFn<'_>>)> {
	vec![
		(
			"histories",
			Box::new(|g: &mut Gen, stats: &mut Stats| match g.below(9) {
				// items that are zero-sized in memory but not on the wire (and a plain zero-sized one)
				6 => history::<Marker>(g, stats),
				7 => history::<MarkerPair>(g, stats),
				8 => history::<[Marker; 2]>(g, stats),
				0 => history::<u8>(g, stats),
				1 => history::<u32>(g, stats),
				2 => history::<String>(g, stats),
				3 => history::<Vec<u8>>(g, stats),
				4 => history::<Named>(g, stats),
				_ => history::<(u16, Option<u8>)>(g, stats),
			}),
		),
		("unit-items", Box::new(unit_history)),
		("invalid-start", Box::new(invalid_start)),
	]
}

pub fn run(ctx: &Ctx) -> (Level, Report) {
	let mut report = Report::default();
	for (name, check) in tape_checks(ctx) {
		let quick = match name {
			"histories" => 300_000,
			"unit-items" => 300_000,
			_ => 200_000,
		};
		let out = ctx.random(name, quick, 10, 2048, &*check);
		report.absorb(name, out);
	}
	if ctx.tier == Tier::Thorough {
		// 2^30-1 -> 2^30 elements with 1 GiB of real u8 items
		let n = (1usize << 30) - 1;
		let mut enc = compact_bytes(n as u128);
		enc.resize(enc.len() + n, 0x5a);
		let r = guard(|| append::<u8, _, _>(false, enc, &[7u8, 8][..]));
		report.stats.eval();
		report.stats.class("1 GiB prefix-width change");
		match r {
			Ok(Ok(bytes)) => {
				let head = compact_bytes((n + 2) as u128);
				let ok = bytes.len() == head.len() + n + 2 &&
					bytes[..head.len()] == head[..] &&
					bytes[head.len()..head.len() + n].iter().all(|b| *b == 0x5a) &&
					bytes[head.len() + n..] == [7, 8];
				if !ok {
					report.direct(&ctx.known, Violation::new("C15/bytes/width-change", "2^30-1 -> 2^30+1 u8 items: wrong result"), json!({"kind": "none"}));
				}
			},
			other => report.direct(
				&ctx.known,
				Violation::new("C15/error/u8", format!("2^30-1 -> 2^30+1 u8 items: {:?}", other.map(|r| r.map(|b| b.len())))),
				json!({"kind": "none"}),
			),
		}
	}
	(
		Level {
			level: "exploration",
			rule: "histories of 1..5 append_or_new calls checked after every step against a model vector: Vec and VecDeque targets; items u8, u32, \
String, Vec<u8>, a derived struct, a tuple, and types that are zero-sized in memory with a non-empty encoding (a one-variant enum, a pair and an array of it); item forms &Vec<T>, Vec<T>, iter::once, Box<T>, Ref<T,T>, &[T], &&T; batch sizes 0..N; starts: empty \
input or an encoded sequence with its count on / next to 63|64 and 2^14-1|2^14. Zero-sized items: start counts around 2^30 and 2^32 and batches \
whose ExactSizeIterator length exceeds 2^32; a combined count above u32::MAX must be an error. Invalid starts (non-canonical, truncated, \
over-wide counts) must be rejected. Oracle: reference encoding of (model ++ items). Non-trivial = step changing the prefix width, a batch >= 2 \
onto a non-empty start, an unrepresentable sum, or an invalid start.",
			assumptions: vec!["reference encoder self-tested on published vectors"],
		},
		report,
	)
}
