//! C08 — decoding is independent of the `Input` implementation.

use crate::common::*;
use psc_bridge::{input::*, zoo::Entry};
use psc_model::{
	dec::ref_decode_ex,
	gen::Gen,
	mutate::gen_input,
	runner::{guard, CheckFn},
	serde_json::json,
	stats::*,
	ty::*,
};
use std::cell::RefCell;

#[derive(Debug, Clone)]
pub enum Kind {
	IoCursor,
	IoChunked(Vec<u8>),
	Unknown,
	Known,
	Bytes,
	Stack(Vec<Wrap>, bool),
}

impl Kind {
	fn label(&self) -> String {
		match self {
			Kind::IoCursor => "ioreader-cursor".into(),
			Kind::IoChunked(_) => "ioreader-short-reads".into(),
			Kind::Unknown => "unknown-length".into(),
			Kind::Known => "dyn-known-length".into(),
			Kind::Bytes => "decode_from_bytes".into(),
			Kind::Stack(s, known) => format!(
				"stack[{}]{}",
				s.iter().map(|w| w.label()).collect::<Vec<_>>().join(">"),
				if *known { "" } else { "/unknown-length" }
			),
		}
	}
}

/// Decode through `kind`; returns (result, consumed if observable, extra diagnostics).
fn decode_via(e: &Entry, bytes: &[u8], kind: &Kind) -> (Result<Val, String>, Option<usize>) {
	match kind {
		Kind::IoCursor => {
			let (r, used) = (e.decode_io.unwrap())(bytes, &[]);
			(r, Some(used))
		},
		Kind::IoChunked(s) => {
			let (r, used) = (e.decode_io.unwrap())(bytes, s);
			(r, Some(used))
		},
		Kind::Unknown | Kind::Known => {
			let mut li = LogInput::new(bytes, matches!(kind, Kind::Known));
			let r = (e.decode_dyn.unwrap())(&mut li);
			(r, Some(li.pos))
		},
		Kind::Bytes => {
			let (r, rest) = (e.decode_bytes.unwrap())(bytes);
			let used = rest.map(|rest| {
				// the unread remainder must be exactly the tail of the input
				if bytes.len() >= rest.len() && bytes[bytes.len() - rest.len()..] == rest[..] {
					bytes.len() - rest.len()
				} else {
					usize::MAX
				}
			});
			(r, used)
		},
		Kind::Stack(stack, known) => {
			let mut li = LogInput::new(bytes, *known);
			let report = RefCell::new(StackReport::default());
			let dd = e.decode_dyn.unwrap();
			let mut result: Option<Result<Val, String>> = None;
			let outer = with_stack(&mut li, stack, &report, &mut |inner| {
				let r = dd(inner);
				let failed = r.is_err();
				result = Some(r);
				if failed {
					Err("inner decode failed".into())
				} else {
					Ok(())
				}
			});
			let r = match (result, outer) {
				(Some(r), _) => r,
				(None, Err(e)) => Err(format!("wrapper failed before decoding: {e}")),
				(None, Ok(())) => Err("bridge: continuation not run".into()),
			};
			(r, Some(li.pos))
		},
	}
}

fn gen_kind(g: &mut Gen, stacks: &[Vec<Wrap>]) -> Kind {
	match g.below(10) {
		0 => Kind::IoCursor,
		1 | 2 => {
			let n = 1 + g.below(6);
			Kind::IoChunked((0..n).map(|_| 1 + (g.u8() % 9)).collect())
		},
		3 => Kind::Unknown,
		4 => Kind::Known,
		5 | 6 => Kind::Bytes,
		_ => Kind::Stack(g.pick(stacks).clone(), g.bool()),
	}
}

pub fn check_case(e: &Entry, bytes: &[u8], kind: &Kind, family: &str, stats: &mut Stats) -> Result<(), Violation> {
	let (_, giant) = ref_decode_ex(&e.ty, bytes);
	if giant > crate::c03::GIANT_ZW_CAP {
		stats.exclude("zero-width-elements-giant-count");
		return Ok(());
	}
	let label = kind.label();
	let base = guard(|| (e.decode_slice.unwrap())(bytes)).map_err(|p| {
		Violation::new(format!("C08/panic/slice/{}", e.ty.family()), format!("type {}: slice decode panicked: {p}", e.name))
	})?;
	let via = guard(|| decode_via(e, bytes, kind)).map_err(|p| {
		Violation::new(
			format!("C08/panic/{}", sanitize(&label)),
			format!("type {}: decode through {label} panicked: {p}\nbytes {}", e.name, hex(bytes)),
		)
	})?;
	stats.eval();
	stats.class(&format!("input:{}", match kind {
		Kind::Stack(s, _) => format!("stack-depth-{}", s.len()),
		_ => label.clone(),
	}));
	stats.class(if base.0.is_ok() { "outcome:ok" } else { "outcome:err" });
	stats.class(&format!("bytes:{family}"));
	let multi_chunk = bytes.len() > 16384 || matches!(kind, Kind::IoChunked(_) | Kind::Bytes | Kind::Stack(..));
	if multi_chunk && !bytes.is_empty() {
		stats.nontrivial(&(e.name, bytes, &label));
	}
	stats.sample(|| json!({"type": e.name, "input": label, "bytes": hex(bytes), "slice_outcome": if base.0.is_ok() { "ok" } else { "err" }}));
	let sig = |what: &str| {
		let k = match kind {
			Kind::Stack(s, _) => format!("stack-{}", s.iter().map(|w| w.label()).collect::<Vec<_>>().join("-")),
			_ => label.clone(),
		};
		format!("C08/{what}/{}", sanitize(&k))
	};
	match (&base.0, &via.0) {
		(Err(_), Err(_)) => Ok(()),
		(Ok(a), Ok(b)) => {
			if !eqv(&normalize(&e.ty, a), &normalize(&e.ty, b)) {
				return Err(Violation::new(
					sig("value"),
					format!(
						"type {}: value through {label} differs from slice decoding\nbytes {}\nslice {}\nother {}",
						e.name,
						hex(bytes),
						a.brief(300),
						b.brief(300)
					),
				));
			}
			if let Some(used) = via.1 {
				if used != base.1 {
					return Err(Violation::new(
						sig("consumed"),
						format!(
							"type {}: {label} consumed {} bytes, slice decoding consumed {}\nbytes {}",
							e.name,
							if used == usize::MAX { "an inconsistent number of".to_string() } else { used.to_string() },
							base.1,
							hex(bytes)
						),
					));
				}
			}
			Ok(())
		},
		(a, b) => Err(Violation::new(
			sig("outcome"),
			format!(
				"type {}: slice decoding {} but {label} {}\nbytes {}\nslice: {}\nother: {}",
				e.name,
				if a.is_ok() { "succeeds" } else { "fails" },
				if b.is_ok() { "succeeds" } else { "fails" },
				hex(bytes),
				a.as_ref().map(|v| v.brief(200)).unwrap_or_else(|e| e.clone()),
				b.as_ref().map(|v| v.brief(200)).unwrap_or_else(|e| e.clone()),
			),
		)),
	}
}

pub fn tape_checks(ctx: &Ctx) -> Vec<(&'static str, Box<CheckFn<'_>>)> {
	let entries = crate::c03::decodable(&ctx.zoo);
	let stacks = all_stacks();
	vec![(
		"inputs",
		Box::new(move |g: &mut Gen, stats: &mut Stats| {
			let e = pick_entry(g, &entries);
			let (mut bytes, family) = gen_input(&e.ty, g, 200);
			if e.is_recursive() && bytes.len() > 256 {
				bytes.truncate(256);
			}
			let kind = gen_kind(g, &stacks);
			check_case(e, &bytes, &kind, family, stats)
		}),
	)]
}

pub fn run(ctx: &Ctx) -> (Level, Report) {
	let mut report = Report::default();
	for (name, check) in tape_checks(ctx) {
		let out = ctx.random(name, 200_000, 20, 1024, &*check);
		report.absorb(name, out);
	}
	// every one of the 39 wrapper orderings x both length modes on a fixed panel of types and inputs
	let panel = ["Vec<u8>", "Vec<Vec<Vec<u16>>>", "BTreeMap<u32, String>", "Option<Box<[u64; 3]>>", "Nested", "(Bytes, Bytes)", "Vec<Bytes>", "String", "Tree", "BitVec<u16, Msb0>"];
	for name in panel {
		let e = ctx.entry(name);
		for (i, stack) in all_stacks().into_iter().enumerate() {
			for known in [true, false] {
				let tape: Vec<u8> = (0..256u32).map(|k| (k as u8).wrapping_mul(29).wrapping_add((i as u8).wrapping_mul(7).wrapping_add(1))).collect();
				let mut g = Gen::new(&tape);
				let (bytes, family) = gen_input(&e.ty, &mut g, 64);
				if let Err(v) = check_case(e, &bytes, &Kind::Stack(stack.clone(), known), family, &mut report.stats) {
					report.direct(&ctx.known, v, json!({"kind": "none", "type": name}));
				}
			}
		}
	}
	(
		Level {
			level: "exploration",
			rule: "(decodable zoo type, byte string from the C03 families, input stack) where the stack is one of: IoReader over a cursor, IoReader over a \
reader delivering 1..9 bytes per read call on a generated schedule, an unknown-length Input, decode_from_bytes (zero-copy cursor; consumption \
observed by decoding a trailing reader of the rest), and all 39 orderings (depth 1-3) of CountedInput / depth-limit(u32::MAX) / \
mem-limit(usize::MAX) over known- and unknown-length bases. Oracle: slice decoding (same Ok/Err, same value, same consumed). Non-trivial = \
non-empty input through a short-read reader, the shared-buffer path, a wrapper stack, or > 16 KiB.",
			assumptions: vec![
				"wrapper stacks are built over a type-erased Input (one monomorphisation of each decoder): the wrappers' and decoders' source is the same as with concrete input types",
				"error descriptions are never compared",
			],
		},
		report,
	)
}
