//! C14 — encodings are self-delimiting; consume-all entry points are exact.

use crate::common::*;
use psc_bridge::{input::LogInput, zoo::Entry};
use psc_model::{
	gen::Gen,
	mutate::gen_input,
	runner::{guard, CheckFn},
	serde_json::json,
	stats::*,
	ty::*,
	valgen::*,
};

/// (1) every strict prefix of an encoding fails to decode.
pub fn check_prefixes(e: &Entry, v: &Val, g: &mut Gen, stats: &mut Stats) -> Result<(), Violation> {
	let (bytes, _) = guard(|| (e.encode.unwrap())(v))
		.map_err(|p| Violation::new(format!("C14/panic/encode/{}", e.ty.family()), format!("type {}: {p}", e.name)))?;
	let cuts: Vec<usize> = if bytes.len() <= 300 {
		(0..bytes.len()).collect()
	} else {
		let mut c: Vec<usize> = vec![0, 1, 2, 3, 4, 5, bytes.len() - 1, bytes.len() - 2, bytes.len() / 2, 16384, 16385, 16383];
		for _ in 0..48 {
			c.push(g.below(bytes.len()));
		}
		c.retain(|k| *k < bytes.len());
		c
	};
	stats.eval();
	stats.class("prefix-cases");
	stats.class_n("prefix-cuts", cuts.len() as u64);
	if bytes.len() >= 3 {
		stats.nontrivial(&(e.name, &bytes));
	}
	stats.sample(|| json!({"relation": "strict prefixes fail", "type": e.name, "encoded_len": bytes.len(), "cuts": cuts.len()}));
	for k in cuts {
		let prefix = &bytes[..k];
		let r = guard(|| (e.decode_slice.unwrap())(prefix)).map_err(|p| {
			Violation::new(format!("C14/panic/decode/{}", e.ty.family()), format!("type {}: prefix decode panicked: {p}", e.name))
		})?;
		let mut li = LogInput::new(prefix, false);
		let r2 = guard(|| (e.decode_dyn.unwrap())(&mut li)).map_err(|p| {
			Violation::new(format!("C14/panic/decode/{}", e.ty.family()), format!("type {}: prefix decode panicked: {p}", e.name))
		})?;
		// ... and through the std::io::Read adapter
		let r3 = guard(|| (e.decode_io.unwrap())(prefix, &[])).map_err(|p| {
			Violation::new(format!("C14/panic/decode/{}", e.ty.family()), format!("type {}: prefix decode panicked: {p}", e.name))
		})?;
		if r3.0.is_ok() {
			return Err(Violation::new(
				format!("C14/prefix-accepted-ioreader/{}", e.ty.family()),
				format!(
					"type {}: the strict prefix of length {k} of a {}-byte encoding decodes successfully through IoReader\nencoding {}\nvalue {}",
					e.name,
					bytes.len(),
					hex(&bytes),
					v.brief(200)
				),
			));
		}
		if r.0.is_ok() || r2.is_ok() {
			return Err(Violation::new(
				format!("C14/prefix-accepted/{}", e.ty.family()),
				format!(
					"type {}: the strict prefix of length {k} of a {}-byte encoding decodes successfully ({} input)\nencoding {}\nvalue {}",
					e.name,
					bytes.len(),
					if r.0.is_ok() { "slice" } else { "unknown-length" },
					hex(&bytes),
					v.brief(200)
				),
			));
		}
	}
	Ok(())
}

/// (2) a concatenation of encodings decodes value by value.
pub fn check_concat(entries: &[&Entry], g: &mut Gen, stats: &mut Stats) -> Result<(), Violation> {
	let n = 2 + g.below(39);
	let mut parts: Vec<(&Entry, Val, usize)> = vec![];
	let mut all = vec![];
	let mut families = std::collections::BTreeSet::new();
	for _ in 0..n {
		let e = *g.pick(entries);
		let mut cfg = GenCfg { budget: 200, ..GenCfg::default() };
		let v = gen_val(&e.ty, g, &mut cfg);
		let (bytes, as_model) = guard(|| (e.encode.unwrap())(&v))
			.map_err(|p| Violation::new(format!("C14/panic/encode/{}", e.ty.family()), format!("type {}: {p}", e.name)))?;
		all.extend_from_slice(&bytes);
		families.insert(e.ty.family());
		parts.push((e, normalize(&e.ty, &after_roundtrip(&e.ty, &as_model)), bytes.len()));
	}
	stats.eval();
	stats.class("concat-cases");
	if families.len() >= 3 {
		stats.nontrivial(&all);
	}
	stats.sample(|| json!({"relation": "concatenation decodes value by value", "values": n, "types": parts.iter().map(|p| p.0.name).take(6).collect::<Vec<_>>(), "total_len": all.len()}));
	let mut pos = 0usize;
	for (i, (e, expect, len)) in parts.iter().enumerate() {
		let (r, used) = guard(|| (e.decode_slice.unwrap())(&all[pos..])).map_err(|p| {
			Violation::new(format!("C14/panic/decode/{}", e.ty.family()), format!("type {}: {p}", e.name))
		})?;
		match r {
			Ok(got) if eqv(&normalize(&e.ty, &got), expect) && used == *len => pos += used,
			other => {
				return Err(Violation::new(
					format!("C14/concat/{}", e.ty.family()),
					format!(
						"value #{i} of {n} (type {}) in a concatenation: expected {} using {len} bytes, got {} using {used}",
						e.name,
						expect.brief(200),
						other.map(|v| v.brief(200)).unwrap_or_else(|e| format!("error {e}")),
					),
				))
			},
		}
	}
	if pos != all.len() {
		return Err(Violation::new("C14/concat/leftover", format!("{} bytes left after decoding all values", all.len() - pos)));
	}
	Ok(())
}

/// (3) decode_all / decode_all_with_depth_limit  <=>  decode succeeds and nothing remains.
pub fn check_decode_all(e: &Entry, bytes: &[u8], limit: u32, family: &str, stats: &mut Stats) -> Result<(), Violation> {
	let (_, giant) = psc_model::dec::ref_decode_ex(&e.ty, bytes);
	if giant > crate::c03::GIANT_ZW_CAP {
		stats.exclude("zero-width-elements-giant-count");
		return Ok(());
	}
	let run = || {
		let plain = (e.decode_slice.unwrap())(bytes);
		let all = (e.decode_all.unwrap())(bytes);
		let lim = (e.depth.unwrap())(bytes, limit);
		let all_lim = (e.decode_all_depth.unwrap())(bytes, limit);
		(plain, all, lim, all_lim)
	};
	let (plain, all, lim, all_lim) = guard(run).map_err(|p| {
		Violation::new(format!("C14/panic/decode_all/{}", e.ty.family()), format!("type {}: {p}\nbytes {}", e.name, hex(bytes)))
	})?;
	stats.eval();
	stats.class("decode_all-cases");
	stats.class(&format!("decode_all-input:{family}"));
	let leftover = plain.0.is_ok() && plain.1 < bytes.len();
	if leftover {
		stats.class("decode succeeds with leftover");
		stats.nontrivial(&(e.name, bytes));
	}
	stats.sample(|| json!({"relation": "decode_all <=> decode && empty", "type": e.name, "bytes": hex(bytes), "depth_limit": limit, "plain_ok": plain.0.is_ok(), "leftover": leftover}));
	// a limit that covers the value's own nesting is no restriction: then the depth-limited consume-everything
	// entry point must agree with *ordinary* decoding, not merely with its depth-limited twin
	if let Ok(v) = &plain.0 {
		let d = depth_hi(&e.ty, v);
		if plain.1 == bytes.len() && limit >= d {
			stats.class("decode_all_with_depth_limit at a sufficient limit");
			match &all_lim {
				Ok(w) if eqv(&normalize(&e.ty, w), &normalize(&e.ty, v)) => {},
				Ok(_) =>
					return Err(Violation::new(
						format!("C14/decode_all_with_depth_limit/value/{}", e.ty.family()),
						format!("type {}: decode_all_with_depth_limit({limit}) returns a different value than decode\nbytes {}", e.name, hex(bytes)),
					)),
				Err(err) =>
					return Err(Violation::new(
						format!("C14/decode_all_with_depth_limit/sufficient-limit/{}", e.ty.family()),
						format!(
							"type {}: decode consumes the whole input and the value nests {d} level(s), but decode_all_with_depth_limit({limit}) fails: {err}\nbytes {}",
							e.name,
							hex(bytes)
						),
					)),
			}
		}
	}
	for (what, base, got) in [("decode_all", &plain, &all), ("decode_all_with_depth_limit", &lim, &all_lim)] {
		let expect_ok = base.0.is_ok() && base.1 == bytes.len();
		match (expect_ok, got) {
			(true, Ok(v)) => {
				if !eqv(&normalize(&e.ty, v), &normalize(&e.ty, base.0.as_ref().unwrap())) {
					return Err(Violation::new(
						format!("C14/{what}/value/{}", e.ty.family()),
						format!("type {}: {what} returns a different value than decode\nbytes {}", e.name, hex(bytes)),
					));
				}
			},
			(false, Err(_)) => {},
			(true, Err(err)) =>
				return Err(Violation::new(
					format!("C14/{what}/rejects/{}", e.ty.family()),
					format!("type {}: decode consumes the whole input but {what} fails: {err}\nbytes {}", e.name, hex(bytes)),
				)),
			(false, Ok(_)) =>
				return Err(Violation::new(
					format!("C14/{what}/accepts/{}", e.ty.family()),
					format!(
						"type {}: {what} succeeds although decode {} (consumed {} of {})\nbytes {}",
						e.name,
						if base.0.is_ok() { "leaves input unread" } else { "fails" },
						base.1,
						bytes.len(),
						hex(bytes)
					),
				)),
		}
	}
	Ok(())
}

pub fn tape_checks(ctx: &Ctx) -> Vec<(&'static str, Box<CheckFn<'_>>)> {
	let codecs = crate::c02::codecs(&ctx.zoo);
	let codecs2 = codecs.clone();
	let non_rec: Vec<&Entry> = codecs.iter().copied().filter(|e| !e.is_recursive()).collect();
	vec![
		(
			"prefixes",
			Box::new(move |g: &mut Gen, stats: &mut Stats| {
				let e = pick_entry(g, &codecs);
				let mut cfg = GenCfg { budget: 20_000, ..GenCfg::default() };
				let v = gen_val(&e.ty, g, &mut cfg);
				check_prefixes(e, &v, g, stats)
			}),
		),
		("concat", Box::new(move |g: &mut Gen, stats: &mut Stats| check_concat(&non_rec, g, stats))),
		(
			"decode_all",
			Box::new(move |g: &mut Gen, stats: &mut Stats| {
				let e = pick_entry(g, &codecs2);
				let (mut bytes, family) = gen_input(&e.ty, g, 128);
				if e.is_recursive() && bytes.len() > 256 {
					bytes.truncate(256);
				}
				let limit = match g.below(4) {
					0 => u32::MAX,
					1 => g.below(4) as u32,
					_ => 1 + g.below(8) as u32,
				};
				check_decode_all(e, &bytes, limit, family, stats)
			}),
		),
	]
}

pub fn run(ctx: &Ctx) -> (Level, Report) {
	let mut report = Report::default();
	for (name, check) in tape_checks(ctx) {
		let quick = match name {
			"prefixes" => 60_000,
			"concat" => 40_000,
			_ => 300_000,
		};
		let out = ctx.random(name, quick, 10, 2048, &*check);
		report.absorb(name, out);
	}
	(
		Level {
			level: "exploration",
			rule: "three relations over generated cases: (1) zoo value x every cut point k < len (all cuts up to 300 bytes, 60 sampled cuts incl. chunk \
boundaries beyond) must fail over slice, unknown-length and IoReader inputs; (2) 2..40 values of mixed zoo types concatenated decode value by value to the \
same values and end empty; (3) for byte strings from the C03 families, decode_all(s) is Ok(x) iff decode(s) is Ok(x) with nothing left, and the \
same for decode_all_with_depth_limit against decode_with_depth_limit at limits u32::MAX and 0..8. Non-trivial = encoding >= 3 bytes / >= 3 type \
families in the sequence / decode succeeds with leftover bytes.",
			assumptions: vec!["reference model used only to skip giant zero-width counts"],
		},
		report,
	)
}
