//! Counting global allocator with per-thread accounting (C09's monitor, C10's leak detector).
//! Requests above a hard cap are refused (returning null), so a hostile reservation can never
//! exhaust the sandbox: the process then dies in `handle_alloc_error`, which the crash-recovering
//! worker observes.

use std::{
	alloc::{GlobalAlloc, Layout, System},
	cell::Cell,
};

pub struct Counting;

// (3 GiB: the C15 thorough case legitimately doubles a 1 GiB buffer)
pub const HARD_CAP: usize = 3 << 30;

thread_local! {
	static LIVE: Cell<isize> = const { Cell::new(0) };
	static PEAK: Cell<isize> = const { Cell::new(0) };
	static MAX_REQ: Cell<usize> = const { Cell::new(0) };
	static TOTAL: Cell<usize> = const { Cell::new(0) };
	static REFUSED: Cell<usize> = const { Cell::new(0) };
	static ON: Cell<bool> = const { Cell::new(false) };
}

#[inline]
fn note_alloc(size: usize) {
	let _ = ON.try_with(|on| {
		if on.get() {
			LIVE.with(|l| {
				let v = l.get() + size as isize;
				l.set(v);
				PEAK.with(|p| {
					if v > p.get() {
						p.set(v)
					}
				});
			});
			MAX_REQ.with(|m| {
				if size > m.get() {
					m.set(size)
				}
			});
			TOTAL.with(|t| t.set(t.get().saturating_add(size)));
		}
	});
}

#[inline]
fn note_free(size: usize) {
	let _ = ON.try_with(|on| {
		if on.get() {
			LIVE.with(|l| l.set(l.get() - size as isize));
		}
	});
}

unsafe impl GlobalAlloc for Counting {
	unsafe fn alloc(&self, layout: Layout) -> *mut u8 {
		if layout.size() > HARD_CAP {
			let _ = REFUSED.try_with(|r| r.set(layout.size()));
			return std::ptr::null_mut();
		}
		note_alloc(layout.size());
		System.alloc(layout)
	}
	unsafe fn alloc_zeroed(&self, layout: Layout) -> *mut u8 {
		if layout.size() > HARD_CAP {
			let _ = REFUSED.try_with(|r| r.set(layout.size()));
			return std::ptr::null_mut();
		}
		note_alloc(layout.size());
		System.alloc_zeroed(layout)
	}
	unsafe fn dealloc(&self, ptr: *mut u8, layout: Layout) {
		note_free(layout.size());
		System.dealloc(ptr, layout)
	}
	unsafe fn realloc(&self, ptr: *mut u8, layout: Layout, new_size: usize) -> *mut u8 {
		if new_size > HARD_CAP {
			let _ = REFUSED.try_with(|r| r.set(new_size));
			return std::ptr::null_mut();
		}
		// a growing realloc may transiently hold old + new
		note_alloc(new_size);
		let p = System.realloc(ptr, layout, new_size);
		if !p.is_null() {
			note_free(layout.size());
		} else {
			note_free(new_size);
		}
		p
	}
}

#[derive(Clone, Copy, Debug, Default)]
pub struct Snapshot {
	pub live: isize,
	pub peak_above_start: isize,
	pub max_request: usize,
	pub total: usize,
}

/// Start measuring on this thread.
pub fn start() {
	LIVE.with(|l| l.set(0));
	PEAK.with(|p| p.set(0));
	MAX_REQ.with(|m| m.set(0));
	TOTAL.with(|t| t.set(0));
	ON.with(|o| o.set(true));
}

/// Read the counters (measuring continues).
pub fn read() -> Snapshot {
	Snapshot {
		live: LIVE.with(|l| l.get()),
		peak_above_start: PEAK.with(|p| p.get()),
		max_request: MAX_REQ.with(|m| m.get()),
		total: TOTAL.with(|t| t.get()),
	}
}

/// Stop measuring on this thread and return the counters.
pub fn stop() -> Snapshot {
	ON.with(|o| o.set(false));
	read()
}
