//! C07 — all encoding entry points and bulk fast paths agree.

use crate::common::*;
use parity_scale_codec::{Decode, Encode, Error, Input, Output};
use psc_bridge::{input::LogInput, zoo::Entry};
use psc_model::{
	enc::ref_encode,
	gen::Gen,
	runner::{guard, CheckFn},
	serde_json::json,
	stats::*,
	valgen::*,
};
use std::collections::VecDeque;

pub fn check_entry_points(e: &Entry, v: &psc_model::ty::Val, stats: &mut Stats) -> Result<(), Violation> {
	let f = e.encode_all.unwrap();
	let out = guard(|| f(v)).map_err(|p| {
		Violation::new(format!("C07/panic/{}", e.ty.family()), format!("type {}: an encode entry point panicked: {p}", e.name))
	})?;
	let reference = ref_encode(&e.ty, &out.as_model);
	stats.eval();
	stats.class(&format!("family:{}", e.ty.family()));
	let crosses = out.encode.len() > 16384;
	if crosses {
		stats.class("encoding>16KiB");
	}
	if crosses || out.dyn_calls >= 2 {
		stats.nontrivial(&(e.name, &out.encode));
	}
	stats.sample(|| json!({"type": e.name, "value": v.brief(100), "len": out.encode.len(), "write_calls_dyn": out.dyn_calls, "write_calls_io": out.io_calls}));
	let forms: [(&str, &Vec<u8>); 5] = [
		("encode()", &out.encode),
		("encode_to(&mut Vec<u8>)", &out.encode_to_vec),
		("encode_to(io::Write sink)", &out.io_sink),
		("encode_to(&mut dyn Output)", &out.dyn_out),
		("using_encoded", &out.using_encoded),
	];
	for (what, bytes) in forms {
		if **bytes != reference {
			return Err(Violation::new(
				format!("C07/entry-point/{}/{}", sanitize(what), e.ty.family()),
				format!(
					"type {}: {what} yields {} but the value's encoding is {}\nvalue {}",
					e.name,
					hex(bytes),
					hex(&reference),
					out.as_model.brief(200)
				),
			));
		}
	}
	if out.encoded_size != reference.len() {
		return Err(Violation::new(
			format!("C07/encoded_size/{}", e.ty.family()),
			format!("type {}: encoded_size() = {} but the encoding has {} bytes", e.name, out.encoded_size, reference.len()),
		));
	}
	Ok(())
}

// ---------------------------------------------------------------------------------------------
// element-wise twin of a primitive: same bytes, but invisible to the bulk fast paths

#[derive(Clone, Copy, PartialEq, Debug)]
pub struct Tw<P>(pub P);

pub trait Prim: Copy + PartialEq + std::fmt::Debug + Encode + Decode + 'static {
	const SIZE: usize;
	const NAME: &'static str;
	fn from_stream(x: u128) -> Self;
	fn le(self) -> Vec<u8>;
	fn from_le(b: &[u8]) -> Self;
	fn bits(self) -> u128;
}

macro_rules! prim {
	($($t:ty),*) => {$(
		impl Prim for $t {
			const SIZE: usize = std::mem::size_of::<$t>();
			const NAME: &'static str = stringify!($t);
			fn from_stream(x: u128) -> Self { x as $t }
			fn le(self) -> Vec<u8> { self.to_le_bytes().to_vec() }
			fn from_le(b: &[u8]) -> Self { <$t>::from_le_bytes(b.try_into().unwrap()) }
			fn bits(self) -> u128 { self as u128 }
		}
	)*}
}
prim!(u8, u16, u32, u64, u128, i8, i16, i32, i64, i128);
impl Prim for f32 {
	const SIZE: usize = 4;
	const NAME: &'static str = "f32";
	fn from_stream(x: u128) -> Self {
		f32::from_bits(x as u32)
	}
	fn le(self) -> Vec<u8> {
		self.to_le_bytes().to_vec()
	}
	fn from_le(b: &[u8]) -> Self {
		f32::from_le_bytes(b.try_into().unwrap())
	}
	fn bits(self) -> u128 {
		u128::from(self.to_bits())
	}
}
impl Prim for f64 {
	const SIZE: usize = 8;
	const NAME: &'static str = "f64";
	fn from_stream(x: u128) -> Self {
		f64::from_bits(x as u64)
	}
	fn le(self) -> Vec<u8> {
		self.to_le_bytes().to_vec()
	}
	fn from_le(b: &[u8]) -> Self {
		f64::from_le_bytes(b.try_into().unwrap())
	}
	fn bits(self) -> u128 {
		u128::from(self.to_bits())
	}
}

impl<P: Prim> Encode for Tw<P> {
	fn encode_to<W: Output + ?Sized>(&self, dest: &mut W) {
		dest.write(&self.0.le());
	}
}
impl<P: Prim> Decode for Tw<P> {
	fn decode<I: Input>(input: &mut I) -> Result<Self, Error> {
		let mut buf = [0u8; 16];
		input.read(&mut buf[..P::SIZE])?;
		Ok(Tw(P::from_le(&buf[..P::SIZE])))
	}
}

fn dec_both<T: Decode>(bytes: &[u8], unknown: bool) -> (Option<T>, usize) {
	if unknown {
		let mut li = LogInput::new(bytes, false);
		let r = T::decode(&mut li).ok();
		(r, li.pos)
	} else {
		let mut s = bytes;
		let r = T::decode(&mut s).ok();
		(r, bytes.len() - s.len())
	}
}

fn twin_arrays<P: Prim, const N: usize>(items: &[P], stats: &mut Stats) -> Result<(), Violation> {
	if items.len() < N {
		return Ok(());
	}
	let a: [P; N] = items[..N].try_into().unwrap();
	let t: [Tw<P>; N] = a.map(Tw);
	let ea = a.encode();
	let et = t.encode();
	stats.class("twin:array");
	if ea != et {
		return Err(Violation::new(
			format!("C07/bulk-encode/array/{}", P::NAME),
			format!("[{}; {N}]: bulk encoding {} != element-wise {}", P::NAME, hex(&ea), hex(&et)),
		));
	}
	for cut in [ea.len(), ea.len().saturating_sub(1), ea.len() / 2] {
		for unknown in [false, true] {
			let (ra, ua) = dec_both::<[P; N]>(&ea[..cut], unknown);
			let (rt, ut) = dec_both::<[Tw<P>; N]>(&ea[..cut], unknown);
			let same = match (&ra, &rt) {
				(None, None) => true,
				(Some(x), Some(y)) => ua == ut && x.iter().zip(y.iter()).all(|(p, q)| p.bits() == q.0.bits()),
				_ => false,
			};
			if !same {
				return Err(Violation::new(
					format!("C07/bulk-decode/array/{}", P::NAME),
					format!(
						"[{}; {N}] decode of {} bytes (cut {cut}, unknown-length={unknown}): bulk ok={} used {ua}, element-wise ok={} used {ut}",
						P::NAME,
						ea.len(),
						ra.is_some(),
						rt.is_some()
					),
				));
			}
		}
	}
	Ok(())
}

pub fn twin_check<P: Prim>(g: &mut Gen, stats: &mut Stats) -> Result<(), Violation> {
	let window = 16384 / P::SIZE;
	let len = match g.below(10) {
		0 => g.below(4),
		1 => window - 1 + g.below(3),
		2 => 2 * window - 1 + g.below(3),
		3 => 3 * window + g.below(3),
		4 => g.below(3 * window + 2),
		5 => window / 2 + g.below(5),
		_ => g.below(200),
	};
	let mut st = g.stream();
	let mode = g.below(3);
	let items: Vec<P> = (0..len)
		.map(|i| match mode {
			0 => P::from_stream(i as u128),
			_ => P::from_stream((u128::from(st.next()) << 64) | u128::from(st.next())),
		})
		.collect();
	let twins: Vec<Tw<P>> = items.iter().map(|p| Tw(*p)).collect();
	stats.eval();
	stats.class(&format!("twin:{}", P::NAME));
	let chunk_class = if len < window {
		"twin-len:<1 chunk"
	} else if len <= window + 1 {
		"twin-len:chunk boundary"
	} else if len <= 2 * window + 1 {
		"twin-len:1..2 chunks"
	} else {
		"twin-len:>2 chunks"
	};
	stats.class(chunk_class);

	// encodings: slice, Vec, wrapped VecDeque
	let e_vec = items.encode();
	let e_slice = (&items[..]).encode();
	let e_twin = twins.encode();
	// a deque whose ring buffer is wrapped
	let mut dq: VecDeque<P> = VecDeque::with_capacity(len + 1);
	let mut dqt: VecDeque<Tw<P>> = VecDeque::with_capacity(len + 1);
	let rot = if len > 0 { 1 + g.below(len) } else { 0 };
	for _ in 0..rot {
		dq.push_back(P::from_stream(0));
		dqt.push_back(Tw(P::from_stream(0)));
	}
	for _ in 0..rot {
		dq.pop_front();
		dqt.pop_front();
	}
	for p in &items {
		dq.push_back(*p);
		dqt.push_back(Tw(*p));
	}
	let wrapped = !dq.as_slices().1.is_empty();
	if wrapped {
		stats.class("twin:deque-wrapped");
	}
	let e_dq = dq.encode();
	let e_dqt = dqt.encode();
	if len >= window || wrapped {
		stats.nontrivial(&(P::NAME, len, &e_vec[..e_vec.len().min(64)]));
	}
	stats.sample(|| json!({"twin": P::NAME, "len": len, "deque_wrapped": wrapped, "class": chunk_class}));
	for (what, bytes) in [("Vec", &e_vec), ("&[T]", &e_slice), ("VecDeque", &e_dq), ("VecDeque<Tw>", &e_dqt)] {
		if *bytes != e_twin {
			let at = bytes.iter().zip(&e_twin).position(|(a, b)| a != b).unwrap_or(bytes.len().min(e_twin.len()));
			return Err(Violation::new(
				format!("C07/bulk-encode/{}/{}", sanitize(what), P::NAME),
				format!(
					"{what}<{}> of {len} elements: bulk encoding differs from element-wise encoding at byte {at} (lengths {} / {})",
					P::NAME,
					bytes.len(),
					e_twin.len()
				),
			));
		}
	}
	// decoding the same bytes: valid, truncated around every chunk boundary, extended
	let mut cuts = vec![e_twin.len(), e_twin.len().saturating_sub(1), e_twin.len() / 2, 0, 1];
	let prefix = e_twin.len() - len * P::SIZE;
	for k in 1..=3 {
		let b = prefix + k * 16384;
		for d in [-1i64, 0, 1] {
			let c = b as i64 + d;
			if c >= 0 && (c as usize) <= e_twin.len() {
				cuts.push(c as usize);
			}
		}
	}
	let mut extended = e_twin.clone();
	extended.extend_from_slice(&[1, 2, 3]);
	for unknown in [false, true] {
		let mut inputs: Vec<&[u8]> = cuts.iter().map(|c| &e_twin[..*c]).collect();
		inputs.push(&extended);
		for input in inputs {
			let (ra, ua) = dec_both::<Vec<P>>(input, unknown);
			let (rt, ut) = dec_both::<Vec<Tw<P>>>(input, unknown);
			let (rd, ud) = dec_both::<VecDeque<P>>(input, unknown);
			let same = match (&ra, &rt, &rd) {
				(None, None, None) => true,
				(Some(x), Some(y), Some(z)) =>
					ua == ut && ua == ud &&
						x.len() == y.len() && x.len() == z.len() &&
						x.iter().zip(y.iter()).all(|(p, q)| p.bits() == q.0.bits()) &&
						x.iter().zip(z.iter()).all(|(p, q)| p.bits() == q.bits()),
				_ => false,
			};
			if !same {
				return Err(Violation::new(
					format!("C07/bulk-decode/vec/{}", P::NAME),
					format!(
						"Vec<{}> ({len} elements encoded, input {} bytes, unknown-length={unknown}): bulk ok={} used {ua}; element-wise ok={} used {ut}; deque ok={} used {ud}",
						P::NAME,
						input.len(),
						ra.is_some(),
						rt.is_some(),
						rd.is_some()
					),
				));
			}
		}
	}
	twin_arrays::<P, 0>(&items, stats)?;
	twin_arrays::<P, 1>(&items, stats)?;
	twin_arrays::<P, 3>(&items, stats)?;
	twin_arrays::<P, 32>(&items, stats)?;
	twin_arrays::<P, 100>(&items, stats)?;
	twin_arrays::<P, 1025>(&items, stats)?;
	Ok(())
}

pub fn tape_checks(ctx: &Ctx) -> Vec<(&'static str, Box<CheckFn<'_>>)> {
	let entries = crate::c01::encodable(&ctx.zoo);
	vec![
		(
			"entry-points",
			Box::new(move |g: &mut Gen, stats: &mut Stats| {
				let e = pick_entry(g, &entries);
				let mut cfg = GenCfg { allow_skipped_variants: true, ..GenCfg::default() };
				let v = gen_val(&e.ty, g, &mut cfg);
				check_entry_points(e, &v, stats)
			}),
		),
		(
			"bulk-twin",
			Box::new(move |g: &mut Gen, stats: &mut Stats| match g.below(12) {
				0 => twin_check::<u8>(g, stats),
				1 => twin_check::<u16>(g, stats),
				2 => twin_check::<u32>(g, stats),
				3 => twin_check::<u64>(g, stats),
				4 => twin_check::<u128>(g, stats),
				5 => twin_check::<i8>(g, stats),
				6 => twin_check::<i16>(g, stats),
				7 => twin_check::<i32>(g, stats),
				8 => twin_check::<i64>(g, stats),
				9 => twin_check::<i128>(g, stats),
				10 => twin_check::<f32>(g, stats),
				_ => twin_check::<f64>(g, stats),
			}),
		),
	]
}

pub fn run(ctx: &Ctx) -> (Level, Report) {
	let mut report = Report::default();
	for (name, check) in tape_checks(ctx) {
		let (quick, factor) = if name == "bulk-twin" { (24_000, 10) } else { (300_000, 10) };
		let out = ctx.random(name, quick, factor, 1024, &*check);
		report.absorb(name, out);
	}
	(
		Level {
			level: "exploration",
			rule: "entry points: (zoo type, value) -> encode / encode_to(Vec) / encode_to(io::Write sink accepting <= 7 bytes per call) / \
encode_to(&mut dyn Output overriding only write) / using_encoded / encoded_size all equal the reference encoding (length for the last). \
bulk twin: all 12 primitive element types x lengths 0..3*16KiB/size (boundary-biased) x {slice, Vec, wrapped VecDeque, arrays} against a \
hand-written element-wise twin type with TYPE_INFO = Unknown; same bytes decoded as Vec<P>, VecDeque<P> and Vec<Tw<P>> (valid, truncated around \
every chunk boundary, extended; slice and unknown-length inputs) must agree on success, values and consumed length. Non-trivial = encoding \
crossing 16 KiB, >= 2 write calls on the dyn sink, a full chunk, or a wrapped deque.",
			assumptions: vec!["reference model self-tested against published vectors", "the twin type's to_le_bytes/from_le_bytes define the element-wise encoding"],
		},
		report,
	)
}
