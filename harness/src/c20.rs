//! C20 — wire format is identical in every feature configuration.

use crate::common::*;
use psc_model::{serde_json::json, stats::*};
use std::{
	collections::BTreeMap,
	process::{Command, Stdio},
};

pub struct Config {
	pub name: &'static str,
	pub features: &'static str,
}

const ALL_OPT: &str = "derive,bit-vec,bytes,generic-array,max-encoded-len";

pub fn configs(thorough: bool) -> Vec<Config> {
	let mut v = vec![
		Config { name: "std+chain-error(default)+all", features: "std,derive,bit-vec,bytes,generic-array,max-encoded-len" },
		Config { name: "no_std+all", features: ALL_OPT },
		Config { name: "no_std+chain-error+all", features: "chain-error,derive,bit-vec,bytes,generic-array,max-encoded-len" },
		Config { name: "std+derive-only", features: "std,derive" },
	];
	if thorough {
		v.extend([
			Config { name: "no_std+derive-only", features: "derive" },
			Config { name: "std+nothing", features: "std" },
			Config { name: "no_std+nothing", features: "" },
			Config { name: "std+bit-vec", features: "std,bit-vec" },
			Config { name: "std+bytes", features: "std,bytes" },
			Config { name: "std+generic-array", features: "std,generic-array" },
			Config { name: "std+derive+max-encoded-len", features: "std,derive,max-encoded-len" },
			Config { name: "no_std+chain-error+derive", features: "chain-error,derive" },
		]);
	}
	v
}

fn target_dir(c: &Config) -> std::path::PathBuf {
	verif_root().join("target").join("cfg").join(sanitize(c.name))
}

fn build(c: &Config) -> Result<(), String> {
	let dir = verif_root().join("cfgprobe");
	let _ = std::fs::copy(verif_root().join("Cargo.lock"), dir.join("Cargo.lock"));
	let out = Command::new("cargo")
		.args(["build", "--release", "--offline", "--no-default-features", "--features", c.features])
		.current_dir(&dir)
		.env("CARGO_TARGET_DIR", target_dir(c))
		.env("CARGO_NET_OFFLINE", "true")
		.stdout(Stdio::piped())
		.stderr(Stdio::piped())
		.output()
		.map_err(|e| format!("cannot run cargo: {e}"))?;
	if out.status.success() {
		Ok(())
	} else {
		let err = String::from_utf8_lossy(&out.stderr);
		Err(err.lines().filter(|l| l.starts_with("error")).take(5).collect::<Vec<_>>().join(" | "))
	}
}

type Lines = BTreeMap<(String, String), Vec<String>>;

fn run_probe(c: &Config, seed: u64, cases: u64, only: Option<&str>) -> Result<Lines, String> {
	let exe = target_dir(c).join("release").join("psc-cfgprobe");
	let mut cmd = Command::new(&exe);
	cmd.env("VERIF_SEED", seed.to_string()).env("PROBE_CASES", cases.to_string());
	if let Some(o) = only {
		cmd.env("PROBE_ONLY", o);
	}
	let out = cmd.output().map_err(|e| format!("cannot run {}: {e}", exe.display()))?;
	let text = String::from_utf8_lossy(&out.stdout);
	if !out.status.success() || !text.trim_end().ends_with("#done") {
		return Err(format!("probe {} ended with {} before finishing its corpus", c.name, out.status));
	}
	let mut m = Lines::new();
	for l in text.lines() {
		let cols: Vec<String> = l.split('\t').map(|s| s.to_string()).collect();
		if cols.len() >= 7 {
			m.insert((cols[0].clone(), cols[1].clone()), cols[2..].to_vec());
		}
	}
	Ok(m)
}

pub fn compare(ctx: &Ctx, cfgs: &[Config], all: &[Lines], report: &mut Report) {
	// 1. inside each configuration: crate == reference model, entry points agree, no panic
	for (c, lines) in cfgs.iter().zip(all) {
		for ((ty, case), cols) in lines {
			report.stats.eval();
			report.stats.class(&format!("config:{}", c.name));
			let is_enc = case.starts_with("enc");
			let (real, model) = (&cols[0], &cols[2]);
			let len: usize = cols[3].parse().unwrap_or(0);
			if len >= 2 {
				report.stats.nontrivial(&(c.name, ty, case));
			}
			let bad = if real == "PANIC" {
				Some("panic")
			} else if is_enc && cols[1] != "entry-points-agree" {
				Some("entry-points-disagree")
			} else if real != model {
				Some(if is_enc { "encoding-differs-from-reference" } else { "decoding-differs-from-reference" })
			} else {
				None
			};
			if let Some(what) = bad {
				report.direct(
					&ctx.known,
					Violation::new(
						format!("C20/{what}/{}", sanitize(c.name)),
						format!("configuration {}: type {ty} case {case}: crate {real}, reference {model}; input/encoding head {}", c.name, cols[4]),
					),
					json!({"kind": "c20", "config": c.name, "type": ty, "case": case}),
				);
			}
		}
	}
	// 2. across configurations: identical lines for types present in both
	let base = &all[0];
	for (c, lines) in cfgs.iter().zip(all).skip(1) {
		let mut common = 0u64;
		for (key, cols) in lines {
			if let Some(b) = base.get(key) {
				common += 1;
				if b[0] != cols[0] {
					report.direct(
						&ctx.known,
						Violation::new(
							format!("C20/config-divergence/{}", sanitize(c.name)),
							format!(
								"type {} case {}: configuration {} gives {}, configuration {} gives {} (input/encoding head {})",
								key.0, key.1, cfgs[0].name, b[0], c.name, cols[0], cols[4]
							),
						),
						json!({"kind": "c20", "config": c.name, "type": key.0, "case": key.1}),
					);
				}
			}
		}
		report.stats.class_n(&format!("common-cases:{}", c.name), common);
	}
}

pub fn run(ctx: &Ctx) -> (Level, Report) {
	let mut report = Report::default();
	let thorough = ctx.tier == Tier::Thorough;
	let cfgs = configs(thorough);
	let cases: u64 = if thorough { 60 } else { 16 };
	// build all configurations in parallel, then run the same corpus through each binary
	let built = psc_model::runner::parallel_map(cfgs.len(), cfgs.len().min(ctx.threads), |i| build(&cfgs[i]));
	for (c, b) in cfgs.iter().zip(&built) {
		if let Err(e) = b {
			// "supported configuration does not build" is not silently skipped
			report.broken.push(format!("configuration {} does not build: {e}", c.name));
		}
	}
	if !report.broken.is_empty() {
		return (level(), report);
	}
	let runs = psc_model::runner::parallel_map(cfgs.len(), ctx.threads, |i| run_probe(&cfgs[i], ctx.seed, cases, None));
	let mut all = vec![];
	for r in runs {
		match r {
			Ok(l) => all.push(l),
			Err(e) => {
				report.broken.push(e);
				return (level(), report);
			},
		}
	}
	compare(ctx, &cfgs, &all, &mut report);
	report.stats.extra.insert("configurations".into(), json!(cfgs.iter().map(|c| format!("{} [{}]", c.name, c.features)).collect::<Vec<_>>()));
	for (k, cols) in all[1].iter().take(6) {
		report.stats.samples.push(json!({"type": k.0, "case": k.1, "no_std": cols[0], "default": all[0].get(k).map(|c| c[0].clone()), "head": cols[4]}));
	}
	(level(), report)
}

fn level() -> Level {
	Level {
		level: "exploration",
		rule: "one probe binary per feature configuration ({std+chain-error, no_std, no_std+chain-error} x {all optional integrations, derive only}; \
thorough adds each optional feature alone and the empty sets), all running the same corpus (pure function of VERIF_SEED): for every zoo type available in \
the configuration, generated values encoded through every entry point available there and byte strings from the C03 families decoded. Oracle: \
within each configuration the crate's digests equal the reference model's and all entry points agree; across configurations the lines of types present \
in both are identical (error descriptions are never printed). Non-trivial = case with an encoding / input of >= 2 bytes; distinct by (configuration, type, case).",
		assumptions: vec!["probe binaries are std programs linking the crate built with the configuration's feature set"],
	}
}

pub fn replay_direct(ctx: &Ctx, doc: &psc_model::serde_json::Value) -> Option<Result<(), Violation>> {
	if doc["kind"] != "c20" {
		return None;
	}
	let ty = doc["type"].as_str()?;
	let cfgs = configs(true);
	let wanted = doc["config"].as_str()?;
	let pair: Vec<Config> = cfgs.into_iter().filter(|c| c.name == wanted || c.name.starts_with("std+chain-error(default)")).collect();
	let mut all = vec![];
	for c in &pair {
		if let Err(e) = build(c) {
			eprintln!("INCONCLUSIVE: {e}");
			return None;
		}
		all.push(run_probe(c, ctx.seed, 60, Some(ty)).ok()?);
	}
	let mut report = Report::default();
	compare(ctx, &pair, &all, &mut report);
	Some(match report.violations.into_iter().next() {
		Some((sig, doc)) => Err(Violation::new(sig, doc["detail"].as_str().unwrap_or("").to_string())),
		None => Ok(()),
	})
}
