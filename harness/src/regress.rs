//! Replay tier: every saved reproducer under /verif/regress/<property>/ (minimal cases once found by a
//! seeded change, a mutant or a fixed defect) is re-run before the generated search. A tape is re-read by
//! today's generators, so an old file may denote a different — but always valid — case; a failure is reported
//! like any other violation, with the regression file as its replay.

use crate::{common::*, registry::tape_checks, worker};
use psc_model::{
	runner::run_tape,
	serde_json::{self, Value},
	stats::*,
};

pub fn run(ctx: &Ctx, report: &mut Report) {
	let dir = verif_root().join("regress").join(ctx.property);
	let Ok(rd) = std::fs::read_dir(&dir) else { return };
	let mut files: Vec<_> = rd.filter_map(|e| e.ok()).map(|e| e.path()).filter(|p| p.extension().map_or(false, |x| x == "json")).collect();
	files.sort();
	let checks = tape_checks(ctx);
	let in_child = matches!(ctx.property, "C09" | "C10" | "C11");
	let mut ran = 0u64;
	for f in files {
		let Ok(text) = std::fs::read_to_string(&f) else { continue };
		let Ok(doc) = serde_json::from_str::<Value>(&text) else { continue };
		let result: Option<Result<(), Violation>> = if doc["kind"] == "tape" {
			let name = doc["check"].as_str().unwrap_or("");
			let tape = unhex(doc["tape"].as_str().unwrap_or(""));
			let Some((_, check)) = checks.iter().find(|(n, _)| *n == name) else { continue };
			if in_child || doc["in_worker"] == true {
				match worker::run_tape_in_child(ctx, name, &tape, &[]) {
					worker::TapeRun::Ok => Some(Ok(())),
					worker::TapeRun::Viol(v) => Some(Err(v)),
					worker::TapeRun::Died(how) => Some(Err(Violation::new(
						format!("{}/crash/regression", ctx.property),
						format!("the worker process dies on the saved case {}: {how}", f.display()),
					))),
					worker::TapeRun::Broken(b) => {
						report.broken.push(format!("regression replay {}: {b}", f.display()));
						None
					},
				}
			} else {
				let mut st = Stats { frozen: true, ..Stats::default() };
				match run_tape(&**check, &tape, &mut st) {
					Ok(r) => Some(r),
					Err(p) => {
						report.broken.push(format!("regression replay {} panicked in the harness: {p}", f.display()));
						None
					},
				}
			}
		} else {
			match ctx.property {
				"C03" => crate::c03::replay_direct(ctx, &doc),
				"C04" => crate::c04::replay_direct(ctx, &doc),
				_ => None, // generated programs and configuration probes are re-derived by the tier itself
			}
		};
		let Some(result) = result else { continue };
		ran += 1;
		report.stats.eval();
		if let Err(v) = result {
			let mut d = doc.clone();
			d["regression_file"] = Value::String(f.display().to_string());
			report.direct(&ctx.known, v, d);
		}
	}
	if ran > 0 {
		report.stats.class_n("replay-tier:saved reproducers re-run", ran);
	}
}
