//! C13 — declared maximum / constant / fixed encoded lengths are true (zoo part; the generated
//! derive(MaxEncodedLen) programs are driven by `programs.rs`).

use crate::common::*;
use psc_bridge::zoo::Entry;
use psc_model::{
	gen::Gen,
	runner::{guard, CheckFn},
	serde_json::json,
	stats::*,
	ty::*,
	valgen::*,
};

/// Signature of a violated bound: keyed on the construct that makes the declared length wrong.
fn mel_signature(e: &Entry) -> String {
	fn has_compact_field(ty: &Ty) -> bool {
		match ty {
			Ty::Struct { fields, .. } => fields.iter().any(|f| !f.skip && (matches!(f.ty, Ty::Compact(_)) || has_compact_field(&f.ty))),
			Ty::Enum { variants, .. } => variants
				.iter()
				.flat_map(|v| v.fields.iter())
				.any(|f| !f.skip && (matches!(f.ty, Ty::Compact(_)) || has_compact_field(&f.ty))),
			Ty::Tuple(ts) => ts.iter().any(has_compact_field),
			Ty::Array(t, _) | Ty::Option(t) => has_compact_field(t),
			Ty::Holder { inner, .. } => has_compact_field(inner),
			_ => false,
		}
	}
	if has_compact_field(&e.ty) {
		"C13/derive-mel/compact-or-encoded-as-field".to_string()
	} else {
		format!("C13/max/{}", e.ty.family())
	}
}

pub fn check_lengths(e: &Entry, v: &Val, stats: &mut Stats) -> Result<(), Violation> {
	let (bytes, as_model) = guard(|| (e.encode.unwrap())(v))
		.map_err(|p| Violation::new(format!("C13/panic/{}", e.ty.family()), format!("type {}: {p}", e.name)))?;
	let len = bytes.len();
	stats.eval();
	stats.class(&format!("family:{}", e.ty.family()));
	if let Some(mel) = e.mel {
		let declared = guard(mel).map_err(|p| Violation::new(format!("C13/panic/{}", e.ty.family()), format!("type {}: max_encoded_len panicked: {p}", e.name)))?;
		stats.class(if e.cel { "ConstEncodedLen" } else { "MaxEncodedLen" });
		if len + 1 >= declared {
			stats.nontrivial(&(e.name, &bytes));
			stats.class("within 1 byte of the declared maximum");
		}
		stats.sample(|| json!({"type": e.name, "value": as_model.brief(100), "encoded_len": len, "declared_max": declared, "const": e.cel}));
		if len > declared {
			return Err(Violation::new(
				mel_signature(e),
				format!(
					"type {}: max_encoded_len() = {declared} but this value encodes to {len} bytes\nvalue {}\nbytes {}",
					e.name,
					as_model.brief(300),
					hex(&bytes)
				),
			));
		}
		if e.cel && len != declared {
			return Err(Violation::new(
				format!("C13/const/{}", e.ty.family()),
				format!("type {}: marked ConstEncodedLen with length {declared} but this value encodes to {len} bytes\nvalue {}", e.name, as_model.brief(300)),
			));
		}
		if let Some(model_max) = e.ty.max_len() {
			if declared < model_max {
				return Err(Violation::new(
					mel_signature(e),
					format!("type {}: max_encoded_len() = {declared} is below the format's maximum {model_max} for this type", e.name),
				));
			}
		}
	}
	if let Some(fs) = e.fixed_size {
		if let Some(n) = fs() {
			stats.class("encoded_fixed_size=Some");
			if len != n {
				return Err(Violation::new(
					format!("C13/fixed-size/{}", e.ty.family()),
					format!("type {}: encoded_fixed_size() = Some({n}) but this value encodes to {len} bytes\nvalue {}", e.name, as_model.brief(300)),
				));
			}
		}
	}
	Ok(())
}

pub fn tape_checks(ctx: &Ctx) -> Vec<(&'static str, Box<CheckFn<'_>>)> {
	let mels: Vec<&Entry> = ctx.zoo.iter().filter(|e| e.mel.is_some() && e.encode.is_some()).collect();
	let fixed: Vec<&Entry> = ctx
		.zoo
		.iter()
		.filter(|e| e.encode.is_some() && e.fixed_size.map_or(false, |f| f().is_some()))
		.collect();
	vec![
		(
			"max-len",
			Box::new(move |g: &mut Gen, stats: &mut Stats| {
				let e = pick_entry(g, &mels);
				let mut cfg = GenCfg { maximize: !g.chance(64), ..GenCfg::default() };
				let v = gen_val(&e.ty, g, &mut cfg);
				check_lengths(e, &v, stats)
			}),
		),
		(
			"fixed-size",
			Box::new(move |g: &mut Gen, stats: &mut Stats| {
				let e = pick_entry(g, &fixed);
				let mut cfg = GenCfg::default();
				let v = gen_val(&e.ty, g, &mut cfg);
				check_lengths(e, &v, stats)
			}),
		),
	]
}

pub fn run(ctx: &Ctx) -> (Level, Report) {
	let mut report = Report::default();
	for (name, check) in tape_checks(ctx) {
		let out = ctx.random(name, 400_000, 10, 512, &*check);
		report.absorb(name, out);
	}
	crate::programs::run_c13(ctx, &mut report);
	(
		Level {
			level: "exploration",
			rule: "zoo: every MaxEncodedLen type (whether it is also marked ConstEncodedLen is observed by a compile-time probe, not taken from a list) x values biased to the longest encodings (integers at max, compacts at the top of \
their widest class, Some, the longer Result side, the longest variant) plus unbiased values: len <= max_encoded_len(), == for ConstEncodedLen, \
declared max >= the format's maximum for the type; every type with encoded_fixed_size() = Some(n): every value encodes to n bytes. programs: \
generated derive(MaxEncodedLen) definitions with compact / encoded_as / skip fields, skipped variants and generic instantiations, compiled \
against /repo and run against the same oracle. Non-trivial = value within 1 byte of the declared maximum.",
			assumptions: vec!["the model's max_len(ty) states the format's maximum for the type"],
		},
		report,
	)
}
