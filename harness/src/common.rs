//! Shared driver plumbing: context, tiers, verdict/evidence output, replay files.

use psc_bridge::zoo::{zoo, Entry};
use psc_model::{
	runner::{run_random, CheckFn, Failure, Outcome, RandomCfg},
	serde_json::{json, Value},
	stats::*,
};
use std::time::Instant;

#[derive(Clone, Copy, PartialEq, Eq, Debug)]
pub enum Tier {
	Quick,
	Thorough,
}

pub struct Ctx {
	pub property: &'static str,
	pub tier: Tier,
	pub seed: u64,
	pub zoo: Vec<Entry>,
	pub known: Vec<Known>,
	pub start: Instant,
	pub threads: usize,
	/// second pass after the in-process run died (allocation failure, stack overflow, sanitizer abort): every random
	/// driver runs in a crash-recovering child so that the killing case is identified and reported
	pub crash_mode: bool,
}

impl Ctx {
	pub fn new(property: &'static str, tier: Tier) -> Ctx {
		let seed = std::env::var("VERIF_SEED").ok().and_then(|s| s.trim().parse::<u64>().ok()).unwrap_or(1);
		let known = load_known(&verif_root().join("known_findings.txt"))
			.into_iter()
			.filter(|k| k.property == property)
			.collect();
		let threads = std::env::var("VERIF_THREADS").ok().and_then(|s| s.parse().ok()).unwrap_or(16);
		let crash_mode = std::env::var("PSC_VERIF_CRASH_MODE").map_or(false, |v| v == "1");
		Ctx { property, tier, seed, zoo: zoo(), known, start: Instant::now(), threads, crash_mode }
	}

	pub fn tier_name(&self) -> &'static str {
		match self.tier {
			Tier::Quick => "quick",
			Tier::Thorough => "thorough",
		}
	}

	/// cases per shard for a check whose quick budget is `quick` cases in total
	pub fn cases(&self, quick_total: u32, thorough_factor: u32) -> u32 {
		let total = match self.tier {
			Tier::Quick => quick_total,
			Tier::Thorough => quick_total.saturating_mul(thorough_factor),
		};
		(total / self.threads as u32).max(1)
	}

	pub fn random(&self, name: &str, quick_total: u32, thorough_factor: u32, tape_len: usize, check: &CheckFn) -> Outcome {
		if self.crash_mode {
			if let Some(out) = crate::worker::random_in_child(self, name, quick_total, thorough_factor, tape_len) {
				return out;
			}
		}
		let cfg = RandomCfg {
			seed: self.seed,
			shards: self.threads,
			cases_per_shard: self.cases(quick_total, thorough_factor),
			tape_len,
			known: self.known.clone(),
		};
		let salt = fingerprint(&(self.property, name));
		run_random(&cfg, salt, check)
	}

	pub fn entry(&self, name: &str) -> &Entry {
		self.zoo.iter().find(|e| e.name == name).unwrap_or_else(|| panic!("harness: no zoo entry {name}"))
	}
}

/// Accumulated result of all sub-checks of one property run.
#[derive(Default)]
pub struct Report {
	pub stats: Stats,
	/// (sub-check name, replay document)
	pub violations: Vec<(String, Value)>,
	pub broken: Vec<String>,
	pub exhaustive: bool,
}

impl Report {
	pub fn absorb(&mut self, check_name: &str, outcome: Outcome) {
		self.stats.merge(outcome.stats);
		if let Some(b) = outcome.broken {
			self.broken.push(format!("{check_name}: {b}"));
		}
		for Failure { tape, violation } in outcome.failures {
			if self.violations.iter().any(|(s, _)| *s == violation.sig) {
				continue; // one replay per root cause
			}
			self.violations.push((
				violation.sig.clone(),
				json!({
					"kind": "tape",
					"check": check_name,
					"signature": violation.sig,
					"tape": hex_full(&tape),
					"detail": violation.detail,
					"in_worker": violation.sig.contains("/crash/"),
				}),
			));
		}
	}

	/// A violation found by an enumerating driver (no tape): `doc` must contain what the
	/// property's replay handler needs.
	pub fn direct(&mut self, known: &[Known], v: Violation, mut doc: Value) {
		if let Some(k) = known.iter().find(|k| k.signature == v.sig) {
			*self.stats.known_hits.entry(k.signature.clone()).or_insert(0) += 1;
			*self.stats.excluded.entry(format!("known-finding:{}", k.signature)).or_insert(0) += 1;
			return;
		}
		if self.violations.iter().any(|(s, _)| *s == v.sig) {
			return; // one replay per root cause
		}
		doc["signature"] = json!(v.sig);
		doc["detail"] = json!(v.detail);
		self.violations.push((v.sig, doc));
	}
}

pub struct Level {
	pub level: &'static str,
	pub rule: &'static str,
	pub assumptions: Vec<&'static str>,
}

/// Print verdict lines, write replays and evidence; returns the process exit code.
pub fn finish(ctx: &Ctx, level: Level, mut report: Report) -> i32 {
	let wall = ctx.start.elapsed().as_secs_f64();
	let mut n_viol = 0u64;
	for (i, (sig, doc)) in report.violations.iter().enumerate() {
		let name = format!(
			"{}-{}-{}",
			ctx.tier_name(),
			sanitize(sig),
			i
		);
		let path = write_replay(ctx.property, &name, doc);
		println!("VIOLATION property={} replay={}", ctx.property, path.display());
		if let Some(d) = doc.get("detail").and_then(|d| d.as_str()) {
			for line in d.lines().take(12) {
				println!("    {line}");
			}
		}
		n_viol += 1;
	}
	for k in &ctx.known {
		let hits = report.stats.known_hits.get(&k.signature).copied().unwrap_or(0);
		println!("KNOWN-FINDING: property={} signature={} {} (hits this run: {hits})", ctx.property, k.signature, k.text);
	}
	for b in &report.broken {
		eprintln!("INCONCLUSIVE property={} {b}", ctx.property);
	}
	// the schema wants at least two distinct non-trivial cases; an honest shortfall is reported as broken
	let meta = EvidenceMeta {
		property: ctx.property,
		tier: ctx.tier_name(),
		seed: ctx.seed,
		level: level.level,
		rule: level.rule,
		assumptions: level.assumptions.iter().map(|s| s.to_string()).collect(),
		wall_s: wall,
		violations: n_viol,
		exhaustive: report.exhaustive,
	};
	report.stats.extra.insert("threads".into(), json!(ctx.threads));
	match write_evidence(&meta, &report.stats) {
		Ok(p) => eprintln!(
			"[{}] {} evaluations, {} distinct non-trivial, {:.1}s, evidence {}",
			ctx.property,
			report.stats.evaluations,
			report.stats.nontrivial.len() as u64 + report.stats.nontrivial_extra,
			wall,
			p.display()
		),
		Err(e) => {
			eprintln!("INCONCLUSIVE property={} cannot write evidence: {e}", ctx.property);
			return 2;
		},
	}
	if n_viol > 0 {
		1
	} else if !report.broken.is_empty() {
		2
	} else {
		0
	}
}

pub fn sanitize(s: &str) -> String {
	s.chars().map(|c| if c.is_ascii_alphanumeric() || c == '-' || c == '_' { c } else { '_' }).take(60).collect()
}

/// Oracle self-test; a failure is "oracle broken" (exit 2), never a violation.
pub fn self_test_or_exit() {
	let bad = psc_model::golden::self_test();
	if !bad.is_empty() {
		for b in bad {
			eprintln!("ORACLE SELF-TEST FAILED: {b}");
		}
		std::process::exit(2);
	}
}

pub fn count_class(n: u64) -> &'static str {
	if n < 64 {
		"count<2^6"
	} else if n < 1 << 14 {
		"count<2^14"
	} else if n < 1 << 30 {
		"count<2^30"
	} else {
		"count>=2^30"
	}
}

/// Type selection for the random drivers: half of the cases pick uniformly over the zoo entries, the other
/// half pick a type *family* first (so that families with few zoo entries — strings, bytes, durations, bit
/// sequences — are not starved by the many tuple/array/integer entries), then an entry of that family.
pub fn pick_entry<'a>(g: &mut psc_model::gen::Gen, entries: &[&'a Entry]) -> &'a Entry {
	if g.bool() {
		return *g.pick(entries);
	}
	let mut fams: Vec<&'static str> = Vec::with_capacity(32);
	for e in entries {
		let f = e.ty.family();
		if !fams.contains(&f) {
			fams.push(f);
		}
	}
	let f = *g.pick(&fams);
	let n = entries.iter().filter(|e| e.ty.family() == f).count();
	let k = g.below(n);
	entries.iter().filter(|e| e.ty.family() == f).nth(k).copied().unwrap()
}
