//! C12 — memory-limited decoding has an exact, meaningful threshold.

use crate::common::*;
use psc_bridge::{input::LogInput, zoo::Entry};
use psc_model::{
	dec::ref_decode_ex,
	enc::ref_encode,
	gen::Gen,
	mutate::gen_input,
	runner::{guard, CheckFn},
	serde_json::json,
	stats::*,
	ty::*,
	valgen::*,
};

pub fn tracked(zoo: &[Entry]) -> Vec<&Entry> {
	zoo.iter().filter(|e| e.mem.is_some()).collect()
}

pub fn check_limits(e: &Entry, bytes: &[u8], family: &str, stats: &mut Stats) -> Result<(), Violation> {
	let (_, giant) = ref_decode_ex(&e.ty, bytes);
	if giant > crate::c03::GIANT_ZW_CAP {
		stats.exclude("zero-width-elements-giant-count");
		return Ok(());
	}
	let pan = |what: &str, p: String| Violation::new(format!("C12/panic/{what}/{}", e.ty.family()), format!("type {}: {p}\nbytes {}", e.name, hex(bytes)));
	let plain = guard(|| (e.decode_slice.unwrap())(bytes)).map_err(|p| pan("plain", p))?;
	let full = guard(|| (e.mem.unwrap())(bytes, usize::MAX)).map_err(|p| pan("unlimited", p))?;
	let u = full.used;
	// announced allocation sizes (through a logging input), for the partial-sum limits
	let mut li = LogInput::new(bytes, true);
	let _ = guard(|| (e.decode_dyn.unwrap())(&mut li)).map_err(|p| pan("logging", p))?;
	let allocs = li.allocs.clone();
	stats.eval();
	stats.class(&format!("input:{family}"));
	stats.class(&format!("family:{}", e.ty.family()));
	stats.class(if u == 0 { "U=0" } else if u <= 4096 { "U<=4096 (every limit tried)" } else { "U>4096 (boundary limits)" });
	stats.max("max_U", u as f64);
	if u > 0 && allocs.iter().filter(|a| **a > 0).count() >= 2 {
		stats.nontrivial(&(e.name, bytes));
		stats.class("announced allocations>=2");
	}
	stats.sample(|| json!({"type": e.name, "bytes": hex(bytes), "U": u, "announced": allocs.iter().take(8).collect::<Vec<_>>(), "plain_ok": plain.0.is_ok()}));

	let same_as_plain = |r: &Result<Val, String>, consumed: usize| match (&plain.0, r) {
		(Ok(a), Ok(b)) => eqv(&normalize(&e.ty, a), &normalize(&e.ty, b)) && plain.1 == consumed,
		(Err(_), Err(_)) => true,
		_ => false,
	};
	// the unlimited tracked decode is the plain decode
	if !same_as_plain(&full.result, full.consumed) {
		return Err(Violation::new(
			format!("C12/transparent/{}", e.ty.family()),
			format!("type {}: decoding through MemTrackingInput(usize::MAX) differs from plain decoding\nbytes {}", e.name, hex(bytes)),
		));
	}
	// the value-derived lower bound and the zero claim
	if let Ok(v) = &plain.0 {
		let payload = heap_payload(&e.ty, v);
		if (u as u64) < payload {
			return Err(Violation::new(
				format!("C12/lower-bound/{}", e.ty.family()),
				format!(
					"type {}: tracked usage {u} is below the {payload} bytes of decoded data the value holds on the heap\nbytes {}\nvalue {}",
					e.name,
					hex(bytes),
					v.brief(300)
				),
			));
		}
		if holds_no_heap(&e.ty, v) && u != 0 {
			return Err(Violation::new(
				format!("C12/zero/{}", e.ty.family()),
				format!("type {}: value holds no heap data but tracked usage is {u}\nbytes {}\nvalue {}", e.name, hex(bytes), v.brief(300)),
			));
		}
		if payload > 0 {
			stats.max("max_U_over_payload", u as f64 / payload as f64);
		}
	}
	// limits
	let mut limits: Vec<usize> = if u <= 4096 {
		(0..=u + 1).collect()
	} else {
		let mut l = vec![0, 1, u - 1, u, u + 1, u.saturating_mul(2)];
		let mut acc = 0usize;
		for a in allocs.iter().take(64) {
			acc = acc.saturating_add(*a);
			l.extend([acc.saturating_sub(1), acc, acc.saturating_add(1)]);
		}
		l
	};
	limits.sort();
	limits.dedup();
	stats.class_n("limits-tried", limits.len() as u64);
	for l in limits {
		let r = guard(|| (e.mem.unwrap())(bytes, l)).map_err(|p| pan("limited", p))?;
		let r2 = guard(|| (e.mem_limit.unwrap())(bytes, l)).map_err(|p| pan("decode_with_mem_limit", p))?;
		if r.result.is_ok() != r2.0.is_ok() || (r.result.is_ok() && r.consumed != r2.1) {
			return Err(Violation::new(
				format!("C12/entry-points/{}", e.ty.family()),
				format!("type {} limit {l}: decode_with_mem_limit and MemTrackingInput::new disagree\nbytes {}", e.name, hex(bytes)),
			));
		}
		if r.result.is_ok() && !same_as_plain(&r.result, r.consumed) {
			return Err(Violation::new(
				format!("C12/transparent/{}", e.ty.family()),
				format!("type {} limit {l}: limited decoding returned something unlimited decoding does not\nbytes {}", e.name, hex(bytes)),
			));
		}
		if l > u && !same_as_plain(&r.result, r.consumed) {
			return Err(Violation::new(
				format!("C12/above-threshold/{}", e.ty.family()),
				format!(
					"type {}: tracked usage is {u}, limit {l} exceeds it, yet the limited decode {} while the plain decode {}\nbytes {}",
					e.name,
					if r.result.is_ok() { "succeeds" } else { "fails" },
					if plain.0.is_ok() { "succeeds" } else { "fails" },
					hex(bytes)
				),
			));
		}
		if u > 0 && l <= u && r.result.is_ok() {
			return Err(Violation::new(
				format!("C12/below-threshold/{}", e.ty.family()),
				format!("type {}: tracked usage is {u} but decoding with limit {l} succeeds\nbytes {}", e.name, hex(bytes)),
			));
		}
	}
	Ok(())
}

pub fn tape_checks(ctx: &Ctx) -> Vec<(&'static str, Box<CheckFn<'_>>)> {
	let entries = tracked(&ctx.zoo);
	let entries2 = entries.clone();
	vec![
		(
			"values",
			Box::new(move |g: &mut Gen, stats: &mut Stats| {
				let e = pick_entry(g, &entries);
				let mut cfg = GenCfg { budget: if g.chance(40) { 30_000 } else { 300 }, ..GenCfg::default() };
				let v = gen_val(&e.ty, g, &mut cfg);
				let bytes = ref_encode(&e.ty, &v);
				check_limits(e, &bytes, "valid", stats)
			}),
		),
		(
			"bytes",
			Box::new(move |g: &mut Gen, stats: &mut Stats| {
				let e = pick_entry(g, &entries2);
				let (mut bytes, family) = gen_input(&e.ty, g, 128);
				if e.is_recursive() && bytes.len() > 256 {
					bytes.truncate(256);
				}
				check_limits(e, &bytes, family, stats)
			}),
		),
	]
}

pub fn run(ctx: &Ctx) -> (Level, Report) {
	let mut report = Report::default();
	for (name, check) in tape_checks(ctx) {
		let out = ctx.random(name, 300_000, 10, 1024, &*check);
		report.absorb(name, out);
	}
	(
		Level {
			level: "exploration",
			rule: "(DecodeWithMemTracking zoo type, valid encoding of a generated value | byte string from the C03 families) x every limit L in \
0..=U+1 when U <= 4096, else {0, 1, every partial sum of the announced allocations ±1, U-1, U, U+1, 2U}, where U = used_mem() of the unlimited \
tracked decode. Oracle: limited result is Err or equals the plain result; L > U => equals the plain result; U > 0 and L <= U => Err; \
decode_with_mem_limit agrees with MemTrackingInput; U >= heap payload of the decoded value (count x element size, boxed sizes, string/bit \
storage, half of count x entry size for tree maps/sets); U == 0 for values holding no heap data. Non-trivial = U > 0 with >= 2 non-zero \
announced allocations.",
			assumptions: vec!["U = 0 with L = 0 may go either way (the statement leaves it open)", "a one-element BTreeSet<()> owns a node: no zero claim is made about it"],
		},
		report,
	)
}
