//! Crash-recovering worker. Checks whose violations kill the process (stack overflow, allocation
//! failure/abort, sanitizer abort) run their random driver in a child process that writes every
//! tape to a "black box" (its stdout pipe) before executing it. If the child dies, the parent
//! recovers the last tape of every shard, re-runs each alone in a fresh child to confirm the
//! crash reproduces, and only then reports a violation. A crash that does not reproduce is
//! inconclusive (exit 2), never a violation.

use crate::common::*;
use psc_model::{
	gen::Gen,
	runner::{run_tape, CheckFn, Failure, Outcome},
	serde_json::{self, json, Value},
	stats::*,
};
use std::{
	collections::BTreeMap,
	io::{BufRead, BufReader, Write},
	process::{Command, Stdio},
	sync::Mutex,
};

static OUT: Mutex<()> = Mutex::new(());

fn emit(line: &str) {
	let _g = OUT.lock().unwrap();
	let mut o = std::io::stdout().lock();
	let _ = o.write_all(line.as_bytes());
	let _ = o.write_all(b"\n");
	let _ = o.flush();
}

/// Child side: run one named tape check with the black box enabled, print stats and failures.
pub fn child_random(ctx: &Ctx, name: &str, quick_total: u32, factor: u32, tape_len: usize, check: &CheckFn) -> i32 {
	let wrapped = |g: &mut Gen, st: &mut Stats| {
		if !st.frozen {
			let tid = format!("{:?}", std::thread::current().id());
			emit(&format!("B {} {}", tid.trim_start_matches("ThreadId(").trim_end_matches(')'), hex_full(g.tape())));
		}
		check(g, st)
	};
	let out = ctx.random(name, quick_total, factor, tape_len, &wrapped);
	emit(&format!("S {}", out.stats.to_json()));
	for f in &out.failures {
		emit(&format!(
			"F {}",
			json!({"tape": hex_full(&f.tape), "sig": f.violation.sig, "detail": f.violation.detail})
		));
	}
	if let Some(b) = &out.broken {
		emit(&format!("X {}", json!(b)));
	}
	emit("D");
	0
}

/// Child side: run the deterministic enumeration `0..n` (the tape of case i is its index).
pub fn child_enum(n: usize, check: &CheckFn) -> i32 {
	let mut stats = Stats::default();
	for i in 0..n {
		let tape = (i as u32).to_le_bytes();
		emit(&format!("B 0 {}", hex_full(&tape)));
		match run_tape(check, &tape, &mut stats) {
			Ok(Ok(())) => {},
			Ok(Err(v)) => emit(&format!("F {}", json!({"tape": hex_full(&tape), "sig": v.sig, "detail": v.detail}))),
			Err(p) => {
				emit(&format!("X {}", json!(p)));
				break;
			},
		}
	}
	stats.extra.insert("enumerated_cases".into(), json!(n));
	emit(&format!("S {}", stats.to_json()));
	emit("D");
	0
}

/// Child side: run exactly one tape.
pub fn child_tape(check: &CheckFn, tape: &[u8]) -> i32 {
	let mut st = Stats::default();
	match run_tape(check, tape, &mut st) {
		Ok(Ok(())) => emit("R ok"),
		Ok(Err(v)) => emit(&format!("R viol {}", json!({"sig": v.sig, "detail": v.detail}))),
		Err(p) => emit(&format!("R broken {}", json!(p))),
	}
	emit("D");
	0
}

fn self_exe() -> std::path::PathBuf {
	std::env::current_exe().expect("current_exe")
}

pub enum TapeRun {
	Ok,
	Viol(Violation),
	Broken(String),
	Died(String),
}

/// Parent side: run one tape alone in a fresh child.
pub fn run_tape_in_child(ctx: &Ctx, name: &str, tape: &[u8], extra_env: &[(&str, String)]) -> TapeRun {
	run_tape_in_child_exe(ctx, name, tape, extra_env, None)
}

pub fn run_tape_in_child_exe(ctx: &Ctx, name: &str, tape: &[u8], extra_env: &[(&str, String)], exe: Option<&str>) -> TapeRun {
	let mut cmd = Command::new(exe.map(std::path::PathBuf::from).unwrap_or_else(self_exe));
	cmd.args(["--worker-tape", ctx.property, ctx.tier_name(), name, &hex_full(tape)])
		.stdout(Stdio::piped())
		.stderr(Stdio::piped());
	for (k, v) in extra_env {
		cmd.env(k, v);
	}
	let out = match cmd.output() {
		Ok(o) => o,
		Err(e) => return TapeRun::Broken(format!("cannot spawn worker: {e}")),
	};
	let text = String::from_utf8_lossy(&out.stdout);
	for line in text.lines() {
		if line == "R ok" {
			return TapeRun::Ok;
		}
		if let Some(j) = line.strip_prefix("R viol ") {
			if let Ok(v) = serde_json::from_str::<Value>(j) {
				return TapeRun::Viol(Violation::new(v["sig"].as_str().unwrap_or("?"), v["detail"].as_str().unwrap_or("")));
			}
		}
		if let Some(j) = line.strip_prefix("R broken ") {
			return TapeRun::Broken(j.to_string());
		}
	}
	let err = String::from_utf8_lossy(&out.stderr);
	let tail: Vec<&str> = err.lines().rev().take(6).collect();
	TapeRun::Died(format!("worker exited with {} — {}", out.status, tail.into_iter().rev().collect::<Vec<_>>().join(" | ")))
}

/// Parent side: run a named tape check in a child process; recover crashes.
/// `crash_sig` is the signature given to a reproducible crash.
pub fn run_in_worker(ctx: &Ctx, name: &str, crash_sig: &str, report: &mut Report) {
	run_worker_mode(ctx, "--worker-random", name, crash_sig, report, None)
}

/// As `run_in_worker`, for a deterministic enumeration; `exe` selects another build of the
/// harness (e.g. the AddressSanitizer one).
pub fn run_enum_in_worker(ctx: &Ctx, name: &str, crash_sig: &str, report: &mut Report, exe: Option<&str>) {
	run_worker_mode(ctx, "--worker-enum", name, crash_sig, report, exe)
}

fn run_worker_mode(ctx: &Ctx, mode: &str, name: &str, crash_sig: &str, report: &mut Report, exe: Option<&str>) {
	let mut child = match Command::new(exe.map(std::path::PathBuf::from).unwrap_or_else(self_exe))
		.args([mode, ctx.property, ctx.tier_name(), name])
		// leaks are attributed per case by the ledger and the counting allocator; an exit-time LSan report could not be
		.env("ASAN_OPTIONS", "detect_leaks=0:abort_on_error=1:halt_on_error=1")
		.stdout(Stdio::piped())
		.stderr(Stdio::piped())
		.spawn()
	{
		Ok(c) => c,
		Err(e) => {
			report.broken.push(format!("{name}: cannot spawn worker: {e}"));
			return;
		},
	};
	let stdout = child.stdout.take().unwrap();
	let stderr = child.stderr.take().unwrap();
	let err_thread = std::thread::spawn(move || {
		let mut lines: Vec<String> = vec![];
		for l in BufReader::new(stderr).lines().map_while(Result::ok) {
			lines.push(l);
			if lines.len() > 200 {
				lines.remove(0);
			}
		}
		lines
	});
	let mut last: BTreeMap<String, String> = BTreeMap::new();
	let mut done = false;
	let mut outcome = Outcome { stats: Stats::default(), failures: vec![], broken: None };
	for line in BufReader::new(stdout).lines().map_while(Result::ok) {
		if let Some(rest) = line.strip_prefix("B ") {
			if let Some((tid, tape)) = rest.split_once(' ') {
				last.insert(tid.to_string(), tape.to_string());
			}
		} else if let Some(j) = line.strip_prefix("S ") {
			if let Ok(v) = serde_json::from_str::<Value>(j) {
				outcome.stats = Stats::from_json(&v);
			}
		} else if let Some(j) = line.strip_prefix("F ") {
			if let Ok(v) = serde_json::from_str::<Value>(j) {
				outcome.failures.push(Failure {
					tape: unhex(v["tape"].as_str().unwrap_or("")),
					violation: Violation::new(v["sig"].as_str().unwrap_or("?"), v["detail"].as_str().unwrap_or("")),
				});
			}
		} else if let Some(j) = line.strip_prefix("X ") {
			outcome.broken = Some(j.to_string());
		} else if line == "D" {
			done = true;
		}
	}
	let status = child.wait();
	let err_lines = err_thread.join().unwrap_or_default();
	if done && status.as_ref().map(|s| s.success()).unwrap_or(false) {
		report.absorb(name, outcome);
		return;
	}
	// the worker died: which of the in-flight cases kills a fresh worker on its own?
	let mut reproduced = false;
	for (_tid, tape_hex) in last {
		let tape = unhex(&tape_hex);
		match run_tape_in_child_exe(ctx, name, &tape, &[], exe) {
			TapeRun::Died(how) => {
				reproduced = true;
				if ctx.known.iter().any(|k| k.signature == crash_sig) {
					*report.stats.known_hits.entry(crash_sig.to_string()).or_insert(0) += 1;
					continue;
				}
				report.violations.push((
					crash_sig.to_string(),
					json!({
						"kind": "tape", "check": name, "in_worker": true, "signature": crash_sig, "tape": tape_hex,
						"detail": format!("the worker process dies on this case (reproduced alone in a fresh process): {how}"),
					}),
				));
				break;
			},
			TapeRun::Viol(v) => {
				reproduced = true;
				report.violations.push((
					v.sig.clone(),
					json!({"kind": "tape", "check": name, "in_worker": true, "signature": v.sig, "tape": tape_hex, "detail": v.detail}),
				));
				break;
			},
			_ => {},
		}
	}
	if !reproduced {
		report.broken.push(format!(
			"{name}: worker died ({:?}) and no in-flight case reproduces the crash alone; stderr tail: {}",
			status.map(|s| s.to_string()),
			err_lines.iter().rev().take(5).cloned().collect::<Vec<_>>().join(" | ")
		));
	}
}

/// Crash mode (`Ctx::crash_mode`): run the random driver of the tape check `name` with the given budget in a child.
/// A child that dies is replaced by a `Failure` naming the in-flight case that kills a fresh child on its own; `None`
/// if the check is not in the registry (the caller then runs it in-process).
pub fn random_in_child(ctx: &Ctx, name: &str, quick_total: u32, factor: u32, tape_len: usize) -> Option<Outcome> {
	if !crate::registry::tape_checks(ctx).iter().any(|(n, _)| *n == name) {
		return None;
	}
	let mut child = Command::new(self_exe())
		.args(["--worker-random-b", ctx.property, ctx.tier_name(), name, &quick_total.to_string(), &factor.to_string(), &tape_len.to_string()])
		.env_remove("PSC_VERIF_CRASH_MODE")
		.stdout(Stdio::piped())
		.stderr(Stdio::piped())
		.spawn()
		.ok()?;
	let stdout = child.stdout.take().unwrap();
	let stderr = child.stderr.take().unwrap();
	let err_thread = std::thread::spawn(move || {
		let mut lines: Vec<String> = vec![];
		for l in BufReader::new(stderr).lines().map_while(Result::ok) {
			lines.push(l);
			if lines.len() > 50 {
				lines.remove(0);
			}
		}
		lines
	});
	let mut last: BTreeMap<String, String> = BTreeMap::new();
	let mut done = false;
	let mut outcome = Outcome { stats: Stats::default(), failures: vec![], broken: None };
	for line in BufReader::new(stdout).lines().map_while(Result::ok) {
		if let Some(rest) = line.strip_prefix("B ") {
			if let Some((tid, tape)) = rest.split_once(' ') {
				last.insert(tid.to_string(), tape.to_string());
			}
		} else if let Some(j) = line.strip_prefix("S ") {
			if let Ok(v) = serde_json::from_str::<Value>(j) {
				outcome.stats = Stats::from_json(&v);
			}
		} else if let Some(j) = line.strip_prefix("F ") {
			if let Ok(v) = serde_json::from_str::<Value>(j) {
				outcome.failures.push(Failure {
					tape: unhex(v["tape"].as_str().unwrap_or("")),
					violation: Violation::new(v["sig"].as_str().unwrap_or("?"), v["detail"].as_str().unwrap_or("")),
				});
			}
		} else if let Some(j) = line.strip_prefix("X ") {
			outcome.broken = Some(j.to_string());
		} else if line == "D" {
			done = true;
		}
	}
	let status = child.wait();
	let err_lines = err_thread.join().unwrap_or_default();
	if done && status.as_ref().map(|s| s.success()).unwrap_or(false) {
		return Some(outcome);
	}
	for (_tid, tape_hex) in last {
		let tape = unhex(&tape_hex);
		match run_tape_in_child(ctx, name, &tape, &[]) {
			TapeRun::Died(how) => {
				outcome.failures.push(Failure {
					tape,
					violation: Violation::new(
						format!("{}/crash/{name}", ctx.property),
						format!("the process dies on this case (reproduced alone in a fresh process): {how}"),
					),
				});
				return Some(outcome);
			},
			TapeRun::Viol(v) => {
				outcome.failures.push(Failure { tape, violation: v });
				return Some(outcome);
			},
			_ => {},
		}
	}
	outcome.broken = Some(format!(
		"{name}: worker died ({:?}) and no in-flight case reproduces the crash alone; stderr tail: {}",
		status.map(|s| s.to_string()),
		err_lines.iter().rev().take(5).cloned().collect::<Vec<_>>().join(" | ")
	));
	Some(outcome)
}
