//! C10 — failed or panicking decodes release everything exactly once.

use crate::{alloc, common::*};
use parity_scale_codec::{Decode, DecodeLimit, DecodeWithMemLimit, DecodeWithMemTracking, Encode, Error, Input, MemTrackingInput, Output};
use psc_model::{
	gen::Gen,
	runner::{take_panic_message, CheckFn},
	serde_json::json,
	stats::*,
};
use std::{
	cell::RefCell,
	collections::{BTreeMap, BTreeSet, BinaryHeap, LinkedList, VecDeque},
	panic::{catch_unwind, AssertUnwindSafe},
	rc::Rc,
	sync::Arc,
};

// ---------------------------------------------------------------------------------------------
// the instrumented element

const MARK: u8 = 0xA5;
const CANARY: u64 = 0x5CA1_AB1E_0DDC_0FFE;
const MAX_IDS: usize = 8192;

struct Ledger {
	live: [bool; MAX_IDS],
	next: usize,
	created: u32,
	bad_drops: u32,
	corrupt: u32,
}

thread_local! {
	static LEDGER: RefCell<Ledger> = const { RefCell::new(Ledger { live: [false; MAX_IDS], next: 1, created: 0, bad_drops: 0, corrupt: 0 }) };
}

fn ledger_reset() {
	LEDGER.with(|l| {
		let mut l = l.borrow_mut();
		l.live = [false; MAX_IDS];
		l.next = 1;
		l.created = 0;
		l.bad_drops = 0;
		l.corrupt = 0;
	});
	ZCOUNT.with(|c| c.set((0, 0)));
}

#[derive(Debug, Clone, Copy, PartialEq)]
struct LedgerState {
	live: u32,
	created: u32,
	bad_drops: u32,
	corrupt: u32,
	z_created: u32,
	z_dropped: u32,
}

fn ledger_state() -> LedgerState {
	LEDGER.with(|l| {
		let l = l.borrow();
		let (z_created, z_dropped) = ZCOUNT.with(|c| c.get());
		LedgerState {
			live: l.live.iter().filter(|b| **b).count() as u32,
			created: l.created,
			bad_drops: l.bad_drops,
			corrupt: l.corrupt,
			z_created,
			z_dropped,
		}
	})
}

/// Owns heap memory (so heap misuse is visible to sanitizers), carries a canary, and is
/// registered in the thread's ledger from construction to drop.
pub struct Tracked {
	id: usize,
	canary: u64,
	payload: Box<u64>,
}

impl Tracked {
	fn new(p: u8) -> Tracked {
		let id = LEDGER.with(|l| {
			let mut l = l.borrow_mut();
			let id = l.next;
			l.next += 1;
			l.created += 1;
			if id < MAX_IDS {
				l.live[id] = true;
			}
			id
		});
		Tracked { id, canary: CANARY ^ id as u64, payload: Box::new(u64::from(p)) }
	}
}

impl Drop for Tracked {
	fn drop(&mut self) {
		let id = self.id;
		let ok_canary = self.canary == CANARY ^ id as u64 && *self.payload < 256;
		LEDGER.with(|l| {
			let mut l = l.borrow_mut();
			if !ok_canary {
				l.corrupt += 1;
			}
			if id == 0 || id >= MAX_IDS || !l.live[id] {
				l.bad_drops += 1; // dropped twice, or dropped without ever being constructed
			} else {
				l.live[id] = false;
			}
		});
	}
}

// ordered by payload (for heaps and sets); equal payloads are equal elements
impl PartialEq for Tracked {
	fn eq(&self, o: &Self) -> bool {
		*self.payload == *o.payload
	}
}
impl Eq for Tracked {}
impl PartialOrd for Tracked {
	fn partial_cmp(&self, o: &Self) -> Option<std::cmp::Ordering> {
		Some(self.cmp(o))
	}
}
impl Ord for Tracked {
	fn cmp(&self, o: &Self) -> std::cmp::Ordering {
		self.payload.cmp(&o.payload)
	}
}

impl Encode for Tracked {
	fn encode_to<W: Output + ?Sized>(&self, dest: &mut W) {
		dest.write(&[MARK, *self.payload as u8]);
	}
}

impl Decode for Tracked {
	fn decode<I: Input>(input: &mut I) -> Result<Self, Error> {
		match input.read_byte()? {
			MARK => {
				let p = input.read_byte()?;
				Ok(Tracked::new(p))
			},
			0x02 => panic!("tracked: scripted panic in element decoder"),
			_ => Err("tracked: scripted malformed element".into()),
		}
	}
}

impl DecodeWithMemTracking for Tracked {}

/// Zero-sized but droppable element (a permit / token): owns no memory, so only a count of
/// constructions vs drops can see whether it is released exactly once.
pub struct ZTok;
const ZMARK: u8 = 0xA6;

thread_local! {
	static ZCOUNT: std::cell::Cell<(u32, u32)> = const { std::cell::Cell::new((0, 0)) };
}

impl Drop for ZTok {
	fn drop(&mut self) {
		ZCOUNT.with(|c| {
			let (a, b) = c.get();
			c.set((a, b + 1));
		});
	}
}

impl Encode for ZTok {
	fn encode_to<W: Output + ?Sized>(&self, dest: &mut W) {
		dest.write(&[ZMARK]);
	}
}

impl Decode for ZTok {
	fn decode<I: Input>(input: &mut I) -> Result<Self, Error> {
		match input.read_byte()? {
			ZMARK => {
				ZCOUNT.with(|c| {
					let (a, b) = c.get();
					c.set((a + 1, b));
				});
				Ok(ZTok)
			},
			0x02 => panic!("ztok: scripted panic in element decoder"),
			_ => Err("ztok: scripted malformed element".into()),
		}
	}
}

impl DecodeWithMemTracking for ZTok {}

fn z() -> ZTok {
	ZCOUNT.with(|c| {
		let (a, b) = c.get();
		c.set((a + 1, b));
	});
	ZTok
}

/// `#[repr(transparent)]` newtype whose zero-sized companion has a fallible decoder.
#[derive(Encode, Decode, DecodeWithMemTracking)]
#[repr(transparent)]
pub struct TZ(Tracked, ZTok);

#[derive(Encode, Decode, DecodeWithMemTracking)]
#[repr(transparent)]
pub struct ZT(ZTok, Box<Tracked>);

fn t(p: usize) -> Tracked {
	Tracked::new((p % 100) as u8)
}

// ---------------------------------------------------------------------------------------------
// container shapes

#[derive(Encode, Decode, DecodeWithMemTracking)]
pub struct DS {
	a: Tracked,
	b: u8,
	c: Tracked,
	#[codec(skip)]
	d: u32,
	e: Vec<Tracked>,
}

#[derive(Encode, Decode, DecodeWithMemTracking)]
pub enum DE {
	A(Tracked),
	B { x: Tracked, y: [Tracked; 2] },
	#[codec(index = 9)]
	C(Box<Tracked>, u8, Tracked),
}

#[derive(Encode, Decode, DecodeWithMemTracking)]
#[repr(transparent)]
pub struct TT(Tracked);

#[derive(Encode, Decode, DecodeWithMemTracking)]
#[repr(transparent)]
pub struct TTA([Tracked; 3], std::marker::PhantomData<u8>);

#[derive(Encode, Decode, DecodeWithMemTracking)]
#[repr(transparent)]
pub struct TTB(Box<[Tracked; 2]>);

#[derive(Clone, Copy, Debug, PartialEq)]
pub enum Mode {
	Plain,
	Unknown,
	Depth(u32),
	Mem(usize),
	/// every limit 0..=U+1 (U measured inside the case, never while building the enumeration)
	MemSweep,
}

fn decode_shape<T: Decode + DecodeWithMemTracking>(input: &[u8], mode: Mode) -> (bool, usize) {
	let mut s = input;
	match mode {
		Mode::Plain => {
			let r = T::decode(&mut s);
			let ok = r.is_ok();
			drop(r);
			(ok, 0)
		},
		Mode::Unknown => {
			let mut li = psc_bridge::input::LogInput::new(input, false);
			let r = T::decode(&mut li);
			let ok = r.is_ok();
			drop(r);
			(ok, 0)
		},
		Mode::Depth(l) => {
			let r = T::decode_with_depth_limit(l, &mut s);
			let ok = r.is_ok();
			drop(r);
			(ok, 0)
		},
		Mode::MemSweep => unreachable!("expanded by run_case"),
		Mode::Mem(l) => {
			if l == usize::MAX {
				let mut m = MemTrackingInput::new(&mut s, usize::MAX);
				let r = T::decode(&mut m);
				let ok = r.is_ok();
				drop(r);
				(ok, m.used_mem())
			} else {
				let r = T::decode_with_mem_limit(&mut s, l);
				let ok = r.is_ok();
				drop(r);
				(ok, 0)
			}
		},
	}
}

pub struct ShapeOps {
	pub name: &'static str,
	pub good: fn() -> Vec<u8>,
	pub decode: fn(&[u8], Mode) -> (bool, usize),
	pub depth: u32,
}

macro_rules! shape {
	($v:ident; $name:literal, $t:ty, $depth:expr, $make:expr) => {{
		fn good() -> Vec<u8> {
			let v: $t = $make;
			let b = v.encode();
			drop(v);
			b
		}
		$v.push(ShapeOps { name: $name, good, decode: decode_shape::<$t>, depth: $depth });
	}};
}

pub fn shapes() -> Vec<ShapeOps> {
	let mut v: Vec<ShapeOps> = vec![];
	shape!(v; "[T;1]", [Tracked; 1], 0, [t(0)]);
	shape!(v; "[T;3]", [Tracked; 3], 0, [t(0), t(1), t(2)]);
	shape!(v; "[T;8]", [Tracked; 8], 0, std::array::from_fn(t));
	shape!(v; "[T;40]", [Tracked; 40], 0, std::array::from_fn(t));
	shape!(v; "Box<T>", Box<Tracked>, 1, Box::new(t(0)));
	shape!(v; "Box<[T;4]>", Box<[Tracked; 4]>, 1, Box::new(std::array::from_fn(t)));
	shape!(v; "Rc<T>", Rc<Tracked>, 1, Rc::new(t(0)));
	shape!(v; "Rc<[T;3]>", Rc<[Tracked; 3]>, 1, Rc::new(std::array::from_fn(t)));
	shape!(v; "Arc<[T;3]>", Arc<[Tracked; 3]>, 1, Arc::new(std::array::from_fn(t)));
	shape!(v; "Vec<T>", Vec<Tracked>, 1, (0..9).map(t).collect());
	shape!(v; "VecDeque<T>", VecDeque<Tracked>, 1, (0..6).map(t).collect());
	shape!(v; "BTreeMap<u16,T>", BTreeMap<u16, Tracked>, 1, (0..7).map(|i| (i as u16, t(i))).collect());
	shape!(v; "LinkedList<T>", LinkedList<Tracked>, 1, (0..5).map(t).collect());
	shape!(v; "Option<T>", Option<Tracked>, 0, Some(t(0)));
	shape!(v; "Result<T,T>", Result<Tracked, Tracked>, 0, Err(t(0)));
	shape!(v; "(T,T,T)", (Tracked, Tracked, Tracked), 0, (t(0), t(1), t(2)));
	shape!(v; "(T,[T;2],Vec<T>)", (Tracked, [Tracked; 2], Vec<Tracked>), 1, (t(0), [t(1), t(2)], vec![t(3), t(4)]));
	shape!(v; "derived struct", DS, 1, DS { a: t(0), b: 7, c: t(1), d: 0, e: vec![t(2), t(3)] });
	shape!(v; "derived enum A", DE, 1, DE::A(t(0)));
	shape!(v; "derived enum B", DE, 1, DE::B { x: t(0), y: [t(1), t(2)] });
	shape!(v; "derived enum C", DE, 1, DE::C(Box::new(t(0)), 3, t(1)));
	shape!(v; "transparent(T)", TT, 0, TT(t(0)));
	shape!(v; "transparent([T;3])", TTA, 0, TTA([t(0), t(1), t(2)], std::marker::PhantomData));
	shape!(v; "transparent(Box<[T;2]>)", TTB, 1, TTB(Box::new([t(0), t(1)])));
	shape!(v; "Box<transparent([T;3])>", Box<TTA>, 1, Box::new(TTA([t(0), t(1), t(2)], std::marker::PhantomData)));
	shape!(v; "[transparent(T);4]", [TT; 4], 0, std::array::from_fn(|i| TT(t(i))));
	// zero-sized droppable elements, and transparent newtypes with a fallible zero-sized companion
	shape!(v; "[Z;4]", [ZTok; 4], 0, std::array::from_fn(|_| z()));
	shape!(v; "[Z;40]", [ZTok; 40], 0, std::array::from_fn(|_| z()));
	shape!(v; "Box<[Z;3]>", Box<[ZTok; 3]>, 1, Box::new(std::array::from_fn(|_| z())));
	shape!(v; "[[Z;2];3]", [[ZTok; 2]; 3], 0, std::array::from_fn(|_| std::array::from_fn(|_| z())));
	shape!(v; "Vec<Z>", Vec<ZTok>, 1, (0..5).map(|_| z()).collect());
	shape!(v; "(Z,T,Z)", (ZTok, Tracked, ZTok), 0, (z(), t(0), z()));
	shape!(v; "[(T,Z);3]", [(Tracked, ZTok); 3], 0, std::array::from_fn(|i| (t(i), z())));
	shape!(v; "transparent(T,Z)", TZ, 0, TZ(t(0), z()));
	shape!(v; "Box<transparent(T,Z)>", Box<TZ>, 1, Box::new(TZ(t(0), z())));
	shape!(v; "[transparent(T,Z);3]", [TZ; 3], 0, std::array::from_fn(|i| TZ(t(i), z())));
	shape!(v; "Box<transparent(Z,Box<T>)>", Box<ZT>, 2, Box::new(ZT(z(), Box::new(t(0)))));
	// nested two deep
	shape!(v; "Vec<[T;3]>", Vec<[Tracked; 3]>, 1, (0..3).map(|i| std::array::from_fn(|j| t(3 * i + j))).collect());
	shape!(v; "[Vec<T>;4]", [Vec<Tracked>; 4], 1, std::array::from_fn(|i| (0..3).map(|j| t(3 * i + j)).collect()));
	shape!(v; "Box<[Box<T>;5]>", Box<[Box<Tracked>; 5]>, 2, Box::new(std::array::from_fn(|i| Box::new(t(i)))));
	shape!(v; "[[T;3];3]", [[Tracked; 3]; 3], 0, std::array::from_fn(|i| std::array::from_fn(|j| t(3 * i + j))));
	shape!(v; "BTreeMap<u16,Vec<T>>", BTreeMap<u16, Vec<Tracked>>, 2, (0..3).map(|i| (i as u16, (0..3).map(|j| t(3 * i + j)).collect())).collect());
	shape!(v; "Option<Box<[T;2]>>", Option<Box<[Tracked; 2]>>, 1, Some(Box::new([t(0), t(1)])));
	shape!(v; "Vec<Vec<T>>", Vec<Vec<Tracked>>, 2, (0..3).map(|i| (0..=i).map(t).collect()).collect());
	shape!(v; "Vec<Box<T>>", Vec<Box<Tracked>>, 2, (0..4).map(|i| Box::new(t(i))).collect());
	shape!(v; "[Box<[T;2]>;3]", [Box<[Tracked; 2]>; 3], 1, std::array::from_fn(|i| Box::new([t(2 * i), t(2 * i + 1)])));
	shape!(v; "Vec<Option<Rc<T>>>", Vec<Option<Rc<Tracked>>>, 2, (0..4).map(|i| if i == 1 { None } else { Some(Rc::new(t(i))) }).collect());
	shape!(v; "VecDeque<(T,u8)>", VecDeque<(Tracked, u8)>, 1, (0..4).map(|i| (t(i), i as u8)).collect());
	shape!(v; "LinkedList<[T;2]>", LinkedList<[Tracked; 2]>, 1, (0..3).map(|i| [t(2 * i), t(2 * i + 1)]).collect());
	// more than one 16 KiB preallocation chunk (682 elements of 24 bytes): faults in the second chunk
	shape!(v; "Vec<T> x700 (2 chunks)", Vec<Tracked>, 1, (0..700).map(t).collect());
	shape!(v; "VecDeque<T> x700 (2 chunks)", VecDeque<Tracked>, 1, (0..700).map(t).collect());
	shape!(v; "Vec<[T;3]> x230 (2 chunks)", Vec<[Tracked; 3]>, 1, (0..230).map(|i| std::array::from_fn(|j| t(3 * i + j))).collect());
	shape!(v; "BinaryHeap<T>", BinaryHeap<Tracked>, 1, (0..6).map(t).collect());
	shape!(v; "BTreeSet<T>", BTreeSet<Tracked>, 1, (0..6).map(t).collect());
	shape!(v; "Arc<T>", Arc<Tracked>, 1, Arc::new(t(0)));
	shape!(v; "VecDeque<Box<T>>", VecDeque<Box<Tracked>>, 2, (0..4).map(|i| Box::new(t(i))).collect());
	shape!(v; "LinkedList<Vec<T>>", LinkedList<Vec<Tracked>>, 2, (0..3).map(|i| (0..=i).map(t).collect()).collect());
	shape!(v; "Vec<derived struct>", Vec<DS>, 2, (0..2).map(|i| DS { a: t(4 * i), b: 1, c: t(4 * i + 1), d: 0, e: vec![t(4 * i + 2), t(4 * i + 3)] }).collect());
	v
}

// ---------------------------------------------------------------------------------------------
// one case

#[derive(Clone, Debug)]
pub struct Case {
	pub shape: usize,
	pub input: Vec<u8>,
	pub mode: Mode,
	pub fault: &'static str,
	pub position: usize,
}

fn marker_offsets(b: &[u8]) -> Vec<usize> {
	b.iter().enumerate().filter(|(_, x)| **x == MARK || **x == ZMARK).map(|(i, _)| i).collect()
}

pub fn run_case(shapes: &[ShapeOps], c: &Case, stats: &mut Stats) -> Result<(), Violation> {
	if c.mode == Mode::MemSweep {
		// measure the tracked usage first (itself a checked case), then make every allocation site the failing one
		let probe = Case { mode: Mode::Mem(usize::MAX), fault: "none", ..c.clone() };
		run_one(shapes, &probe, stats)?;
		ledger_reset();
		let u = match catch_unwind(AssertUnwindSafe(|| (shapes[c.shape].decode)(&c.input, Mode::Mem(usize::MAX)))) {
			Ok((_, u)) => u,
			Err(_) => {
				drop(take_panic_message());
				0
			},
		};
		let limits: Vec<usize> = if u <= 600 { (0..=u + 1).collect() } else { (0..=u + 1).step_by(u / 300 + 1).chain([u - 1, u, u + 1]).collect() };
		for l in limits {
			let sub = Case { mode: Mode::Mem(l), fault: if l > u { "none" } else { "mem-limit" }, ..c.clone() };
			run_one(shapes, &sub, stats)?;
		}
		return Ok(());
	}
	run_one(shapes, c, stats)
}

fn run_one(shapes: &[ShapeOps], c: &Case, stats: &mut Stats) -> Result<(), Violation> {
	let s = &shapes[c.shape];
	ledger_reset();
	alloc::start();
	let r = catch_unwind(AssertUnwindSafe(|| (s.decode)(&c.input, c.mode)));
	let panicked = match &r {
		Ok(_) => false,
		Err(_) => true,
	};
	let ok = matches!(r, Ok((true, _)));
	drop(r);
	if panicked {
		drop(take_panic_message());
	}
	let snap = alloc::stop();
	let st = ledger_state();
	stats.eval();
	stats.class(&format!("shape:{}", s.name));
	stats.class(&format!("fault:{}", c.fault));
	stats.class(if ok { "outcome:ok" } else if panicked { "outcome:panic" } else { "outcome:err" });
	if c.position >= 1 && !ok {
		stats.class("fault at element >= 1 (something to release)");
		stats.nontrivial(&(s.name, &c.input, format!("{:?}", c.mode)));
	}
	stats.sample(|| json!({"shape": s.name, "fault": c.fault, "position": c.position, "mode": format!("{:?}", c.mode), "input": hex(&c.input), "constructed": st.created, "outcome": if ok { "ok" } else if panicked { "panic" } else { "err" }}));
	let describe = || {
		format!(
			"shape {} fault {} at position {} mode {:?} input {} -> {}; elements constructed {}, still alive {}, bad drops {}, corrupted {}, heap bytes not returned {}; zero-sized tokens constructed {} dropped {}",
			s.name,
			c.fault,
			c.position,
			c.mode,
			hex(&c.input),
			if ok { "Ok" } else if panicked { "panic" } else { "Err" },
			st.created,
			st.live,
			st.bad_drops,
			st.corrupt,
			snap.live,
			st.z_created,
			st.z_dropped
		)
	};
	if st.bad_drops > 0 {
		return Err(Violation::new(format!("C10/double-or-uninit-drop/{}", sanitize(s.name)), describe()));
	}
	if st.corrupt > 0 {
		return Err(Violation::new(format!("C10/corrupt-element/{}", sanitize(s.name)), describe()));
	}
	if st.live > 0 {
		return Err(Violation::new(format!("C10/leaked-element/{}", sanitize(s.name)), describe()));
	}
	if st.z_dropped > st.z_created {
		return Err(Violation::new(format!("C10/double-or-uninit-drop/{}", sanitize(s.name)), describe()));
	}
	if st.z_dropped < st.z_created {
		return Err(Violation::new(format!("C10/leaked-zero-sized-element/{}", sanitize(s.name)), describe()));
	}
	if snap.live != 0 {
		return Err(Violation::new(format!("C10/leaked-memory/{}", sanitize(s.name)), describe()));
	}
	if c.fault == "none" && !ok {
		return Err(Violation::new(format!("C10/good-input-rejected/{}", sanitize(s.name)), describe()));
	}
	if c.fault == "none" && ok {
		let expect = marker_offsets(&c.input).len() as u32;
		if st.created + st.z_created != expect {
			return Err(Violation::new(format!("C10/element-count/{}", sanitize(s.name)), describe()));
		}
	}
	Ok(())
}

/// The deterministic enumeration: every failure position x fault kind for every shape.
pub fn enumerate(shapes: &[ShapeOps]) -> Vec<Case> {
	let mut cases = vec![];
	for (si, s) in shapes.iter().enumerate() {
		ledger_reset();
		let good = (s.good)();
		let marks = marker_offsets(&good);
		for mode in [Mode::Plain, Mode::Unknown] {
			cases.push(Case { shape: si, input: good.clone(), mode, fault: "none", position: 0 });
			for (i, m) in marks.iter().enumerate() {
				for (fault, byte) in [("malformed", 0x01u8), ("panic", 0x02)] {
					let mut b = good.clone();
					b[*m] = byte;
					cases.push(Case { shape: si, input: b, mode, fault, position: i });
				}
			}
			for cut in 0..good.len() {
				let pos = marks.iter().filter(|m| **m < cut).count();
				cases.push(Case { shape: si, input: good[..cut].to_vec(), mode, fault: "input-exhausted", position: pos });
			}
		}
		// depth-limit errors on good input and in combination with a malformed / panicking element
		for l in 0..=s.depth + 1 {
			cases.push(Case { shape: si, input: good.clone(), mode: Mode::Depth(l), fault: if l >= s.depth { "none" } else { "depth-limit" }, position: 1 });
			if let Some(m) = marks.last() {
				for byte in [0x01u8, 0x02] {
					let mut b = good.clone();
					b[*m] = byte;
					cases.push(Case { shape: si, input: b, mode: Mode::Depth(l), fault: "depth-limit+element", position: marks.len() - 1 });
				}
			}
		}
		// mem-limit errors: every limit 0..=U makes a different allocation site the failing one
		cases.push(Case { shape: si, input: good.clone(), mode: Mode::MemSweep, fault: "mem-limit-sweep", position: 1 });
	}
	ledger_reset();
	cases
}

fn random_case(shapes: &[ShapeOps], g: &mut Gen) -> Case {
	let si = g.below(shapes.len());
	ledger_reset();
	let mut input = (shapes[si].good)();
	let faults = 1 + g.below(3);
	let mut first = usize::MAX;
	for _ in 0..faults {
		let marks = marker_offsets(&input);
		match g.below(5) {
			0 | 1 if !marks.is_empty() => {
				let i = g.below(marks.len());
				input[marks[i]] = *g.pick(&[0x01u8, 0x02, 0x00, 0xff]);
				first = first.min(i);
			},
			2 => {
				let cut = g.below(input.len() + 1);
				input.truncate(cut);
			},
			3 if !input.is_empty() => {
				let i = g.below(input.len());
				input[i] = g.u8();
			},
			_ => {
				let n = g.below(4);
				input.extend(g.bytes(n));
			},
		}
	}
	let mode = match g.below(5) {
		0 => Mode::Depth(g.below(4) as u32),
		1 => Mode::Mem(g.below(700)),
		2 => Mode::Unknown,
		_ => Mode::Plain,
	};
	let first = if first == usize::MAX { marker_offsets(&input).len() } else { first };
	Case { shape: si, input, mode, fault: "random-script", position: first }
}

thread_local! {
	static CASES: RefCell<Option<(Vec<ShapeOps>, Vec<Case>)>> = const { RefCell::new(None) };
}

fn with_cases<R>(f: impl FnOnce(&[ShapeOps], &[Case]) -> R) -> R {
	CASES.with(|c| {
		let mut c = c.borrow_mut();
		if c.is_none() {
			let s = shapes();
			let cs = enumerate(&s);
			*c = Some((s, cs));
		}
		let (s, cs) = c.as_ref().unwrap();
		f(s, cs)
	})
}

pub fn n_cases() -> usize {
	with_cases(|_, cs| cs.len())
}

pub fn tape_checks(_ctx: &Ctx) -> Vec<(&'static str, Box<CheckFn<'_>>)> {
	vec![
		(
			// the tape is a case index: the enumerating worker feeds 0, 1, 2, ...
			"fault-enumeration",
			Box::new(|g: &mut Gen, stats: &mut Stats| {
				let i = g.u32() as usize;
				with_cases(|shapes, cases| {
					if i >= cases.len() {
						return Ok(());
					}
					run_case(shapes, &cases[i], stats)
				})
			}),
		),
		(
			"random-scripts",
			Box::new(|g: &mut Gen, stats: &mut Stats| {
				with_cases(|shapes, _| {
					let c = random_case(shapes, g);
					// a randomly damaged input may or may not decode: only the release invariants apply
					let c = Case { fault: "random-script", ..c };
					run_case(shapes, &c, stats)
				})
			}),
		),
	]
}

pub fn budget(name: &str) -> (u32, u32, usize) {
	match name {
		"random-scripts" => (400_000, 10, 64),
		_ => (0, 1, 4),
	}
}

pub fn run(ctx: &Ctx) -> (Level, Report) {
	let mut report = Report::default();
	crate::worker::run_enum_in_worker(ctx, "fault-enumeration", "C10/crash", &mut report, None);
	crate::worker::run_in_worker(ctx, "random-scripts", "C10/crash", &mut report);
	// the same enumeration under AddressSanitizer (+ leak detection), when the ASan build is present
	if let Ok(exe) = std::env::var("PSC_VERIF_ASAN_EXE") {
		if std::path::Path::new(&exe).exists() {
			let before = report.stats.evaluations;
			crate::worker::run_enum_in_worker(ctx, "fault-enumeration", "C10/asan-report", &mut report, Some(&exe));
			report.stats.extra.insert("asan_cases".into(), json!(report.stats.evaluations - before));
		} else {
			report.broken.push(format!("ASan build {exe} not found"));
		}
	} else {
		report.stats.extra.insert("asan_cases".into(), json!("not run: PSC_VERIF_ASAN_EXE unset"));
	}
	report.exhaustive = true;
	// (the parent never decodes anything itself: a double free would take the driver down with it)
	(
		Level {
			level: "fault_enumeration",
			rule: "enumerated fault scripts: 50 container shapes (incl. zero-sized droppable elements and transparent newtypes with a fallible zero-sized companion) ([T;N] up to 40, Box, Box<[T;N]>, Rc, Arc, Vec, VecDeque, BTreeMap, LinkedList, Option, \
Result, tuples, derived struct/enum, repr(transparent) newtypes, two-deep nests) x failing element index (every position) x fault kind {input \
exhausted at every byte, malformed element, panic in element decoder, depth-limit error at every limit, mem-limit error at every limit 0..=U} + \
the no-fault script, over slice and unknown-length inputs; plus random multi-fault scripts. Oracle: an instrumented element type with a \
thread-local ledger (every constructed element dropped exactly once, no drop of an unconstructed slot, canary intact), a counting allocator \
(every heap byte requested during the call returned after the drop), run natively and under AddressSanitizer in a crash-recovering worker. \
Non-trivial = failing script with the fault at element index >= 1.",
			assumptions: vec!["sanitizer and ledger see only executed scripts", "the element's own Decode impl is part of the harness"],
		},
		report,
	)
}
