//! Generated-program driver (C05 / C13 / C17). Filled in below.
use crate::common::*;

pub fn run_c13(_ctx: &Ctx, _report: &mut Report) {}
