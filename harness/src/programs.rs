//! Generated-program driver (C05 / C13 / C17): derive definitions are generated from tapes,
//! written into scratch crates compiled against /repo, then executed against the model (C05,
//! C13) or judged by the compiler's verdict (C17).

use crate::{common::*, progdef::*};
use psc_bridge::zoo::Entry;
use psc_model::{
	gen::{splitmix, Gen},
	mutate::gen_input,
	serde_json::{self, json, Value},
	stats::*,
	ty::*,
	valgen::*,
};
use std::{
	collections::BTreeMap,
	io::Write,
	path::{Path, PathBuf},
	process::{Command, Stdio},
};

pub const PRELUDE: &str = r#"
#![allow(warnings)]
use parity_scale_codec::{Compact, CompactAs, Decode, DecodeWithMemTracking, Encode, HasCompact, MaxEncodedLen};
use psc_bridge::{model::ty::*, CompactModel, Modeled};
use std::{collections::BTreeMap, marker::PhantomData};

#[derive(Encode, Decode, DecodeWithMemTracking, CompactAs, MaxEncodedLen, Clone, Debug, PartialEq, Eq, Default)]
pub struct CW(pub u32);
impl Modeled for CW {
	fn ty() -> Ty { Ty::Struct { name: "CW".into(), fields: vec![Field { ty: Ty::U(32), skip: false }] } }
	fn from_val(v: &Val) -> Self { CW(v.as_tuple()[0].as_u() as u32) }
	fn to_val(&self) -> Val { Val::Tuple(vec![Val::U(self.0 as u128)]) }
}
impl CompactModel for CW {
	fn compact_ty() -> Ty { Ty::Struct { name: "Compact<CW>".into(), fields: vec![Field { ty: Ty::Compact(32), skip: false }] } }
}
#[derive(Encode, Decode, DecodeWithMemTracking, CompactAs, MaxEncodedLen, Clone, Debug, PartialEq, Eq, Default)]
pub struct CW8(pub u8);
impl Modeled for CW8 {
	fn ty() -> Ty { Ty::Struct { name: "CW8".into(), fields: vec![Field { ty: Ty::U(8), skip: false }] } }
	fn from_val(v: &Val) -> Self { CW8(v.as_tuple()[0].as_u() as u8) }
	fn to_val(&self) -> Val { Val::Tuple(vec![Val::U(self.0 as u128)]) }
}
impl CompactModel for CW8 {
	fn compact_ty() -> Ty { Ty::Struct { name: "Compact<CW8>".into(), fields: vec![Field { ty: Ty::Compact(8), skip: false }] } }
}
#[derive(Encode, Decode, DecodeWithMemTracking, CompactAs, MaxEncodedLen, Clone, Debug, PartialEq, Eq, Default)]
pub struct CW16(pub u16);
impl Modeled for CW16 {
	fn ty() -> Ty { Ty::Struct { name: "CW16".into(), fields: vec![Field { ty: Ty::U(16), skip: false }] } }
	fn from_val(v: &Val) -> Self { CW16(v.as_tuple()[0].as_u() as u16) }
	fn to_val(&self) -> Val { Val::Tuple(vec![Val::U(self.0 as u128)]) }
}
impl CompactModel for CW16 {
	fn compact_ty() -> Ty { Ty::Struct { name: "Compact<CW16>".into(), fields: vec![Field { ty: Ty::Compact(16), skip: false }] } }
}
#[derive(Encode, Decode, DecodeWithMemTracking, CompactAs, MaxEncodedLen, Clone, Debug, PartialEq, Eq, Default)]
pub struct CW64(pub u64);
impl Modeled for CW64 {
	fn ty() -> Ty { Ty::Struct { name: "CW64".into(), fields: vec![Field { ty: Ty::U(64), skip: false }] } }
	fn from_val(v: &Val) -> Self { CW64(v.as_tuple()[0].as_u() as u64) }
	fn to_val(&self) -> Val { Val::Tuple(vec![Val::U(self.0 as u128)]) }
}
impl CompactModel for CW64 {
	fn compact_ty() -> Ty { Ty::Struct { name: "Compact<CW64>".into(), fields: vec![Field { ty: Ty::Compact(64), skip: false }] } }
}
#[derive(Encode, Decode, DecodeWithMemTracking, CompactAs, MaxEncodedLen, Clone, Debug, PartialEq, Eq, Default)]
pub struct CW128(pub u128);
impl Modeled for CW128 {
	fn ty() -> Ty { Ty::Struct { name: "CW128".into(), fields: vec![Field { ty: Ty::U(128), skip: false }] } }
	fn from_val(v: &Val) -> Self { CW128(v.as_tuple()[0].as_u() as u128) }
	fn to_val(&self) -> Val { Val::Tuple(vec![Val::U(self.0 as u128)]) }
}
impl CompactModel for CW128 {
	fn compact_ty() -> Ty { Ty::Struct { name: "Compact<CW128>".into(), fields: vec![Field { ty: Ty::Compact(128), skip: false }] } }
}
"#;

fn gen_root(property: &str) -> PathBuf {
	verif_root().join("gen-work").join(property)
}

fn gen_target() -> PathBuf {
	verif_root().join("target").join("gen")
}

fn write_file(p: &Path, s: &str) {
	if let Some(d) = p.parent() {
		let _ = std::fs::create_dir_all(d);
	}
	// avoid touching unchanged files (keeps cargo fingerprints)
	if std::fs::read_to_string(p).ok().as_deref() != Some(s) {
		std::fs::write(p, s).unwrap_or_else(|e| panic!("harness: cannot write {}: {e}", p.display()));
	}
}

/// Line ranges (1-based, inclusive) of each definition inside a generated source file.
pub struct Emitted {
	pub source: String,
	pub ranges: Vec<(usize, usize)>,
}

pub fn emit_runtime_crate(dir: &Path, crate_name: &str, defs: &[Def]) -> Emitted {
	let mut src = String::from(PRELUDE);
	let mut ranges = vec![];
	for d in defs {
		let start = src.lines().count() + 1;
		src.push_str(&format!("// ---- {}\n", d.name));
		src.push_str(&d.source(false));
		src.push_str(&d.modeled_impl());
		let end = src.lines().count();
		ranges.push((start, end));
	}
	src.push_str("\nfn entries() -> Vec<psc_bridge::zoo::Entry> {\n\tuse psc_bridge::zoo::Entry;\n\tlet mut v = Vec::new();\n");
	for d in defs {
		let t = d.use_type("self");
		let t = t.trim_start_matches("self::").to_string();
		let mut e = format!("Entry::new::<{t}>(\"{}\").enc::<{t}>().dec::<{t}>().mem::<{t}>()", d.name);
		if d.derive_mel {
			e.push_str(&format!(".mel::<{t}>()"));
		}
		src.push_str(&format!("\tv.push({e});\n"));
		// in-place decoding (`decode_into`) is only reached through boxes and arrays
		if d.has_encodable_value() && !d.is_all_skipped_enum() && (d.transparent || d.name.bytes().map(usize::from).sum::<usize>() % 3 == 0) {
			src.push_str(&format!(
				"\tv.push(Entry::new::<Box<{t}>>(\"Box<{n}>\").enc::<Box<{t}>>().dec::<Box<{t}>>().mem::<Box<{t}>>());\n\tv.push(Entry::new::<[{t}; 2]>(\"[{n}; 2]\").enc::<[{t}; 2]>().dec::<[{t}; 2]>().mem::<[{t}; 2]>());\n",
				n = d.name
			));
		}
	}
	src.push_str("\tv\n}\n\nfn main() {\n\tstd::process::exit(psc_checks::programs::child_main(entries()));\n}\n");
	write_file(&dir.join("src/main.rs"), &src);
	let root = verif_root();
	write_file(
		&dir.join("Cargo.toml"),
		&format!(
			r#"[package]
name = "{crate_name}"
version = "0.1.0"
edition = "2021"

[dependencies]
psc-model = {{ path = "{root}/model" }}
psc-bridge = {{ path = "{root}/bridge" }}
psc-verif = {{ path = "{root}/harness" }}
parity-scale-codec = {{ path = "/repo", features = ["derive", "bit-vec", "bytes", "generic-array", "max-encoded-len"] }}

[profile.release]
opt-level = 1
debug = 0
codegen-units = 16
incremental = true
overflow-checks = false

[workspace]
"#,
			root = root.display()
		),
	);
	let _ = std::fs::copy(root.join("Cargo.lock"), dir.join("Cargo.lock"));
	Emitted { source: src, ranges }
}

#[derive(Debug, Clone)]
pub struct CompileError {
	pub message: String,
	pub lines: Vec<usize>,
}

/// Run cargo with JSON diagnostics; returns (success, errors with every line of `file_suffix` they touch).
pub fn cargo_json(dir: &Path, args: &[&str], file_suffix: &str) -> (bool, Vec<CompileError>, String) {
	let out = Command::new("cargo")
		.args(args)
		.arg("--message-format=json")
		.current_dir(dir)
		.env("CARGO_TARGET_DIR", gen_target())
		.env("CARGO_NET_OFFLINE", "true")
		.stdout(Stdio::piped())
		.stderr(Stdio::piped())
		.output()
		.unwrap_or_else(|e| panic!("harness: cannot run cargo: {e}"));
	let mut errors = vec![];
	fn collect(span: &Value, suffix: &str, lines: &mut Vec<usize>) {
		if span.is_null() {
			return;
		}
		if span["file_name"].as_str().map_or(false, |f| f.ends_with(suffix)) {
			if let Some(l) = span["line_start"].as_u64() {
				lines.push(l as usize);
			}
		}
		collect(&span["expansion"]["span"], suffix, lines);
	}
	fn walk(msg: &Value, suffix: &str, lines: &mut Vec<usize>) {
		if let Some(spans) = msg["spans"].as_array() {
			for s in spans {
				collect(s, suffix, lines);
			}
		}
		if let Some(children) = msg["children"].as_array() {
			for c in children {
				walk(c, suffix, lines);
			}
		}
	}
	for line in String::from_utf8_lossy(&out.stdout).lines() {
		let Ok(v) = serde_json::from_str::<Value>(line) else { continue };
		if v["reason"] != "compiler-message" {
			continue;
		}
		let m = &v["message"];
		if m["level"] != "error" {
			continue;
		}
		let mut lines = vec![];
		walk(m, file_suffix, &mut lines);
		lines.sort();
		lines.dedup();
		errors.push(CompileError { message: m["message"].as_str().unwrap_or("").to_string(), lines });
	}
	let stderr_tail: String = String::from_utf8_lossy(&out.stderr).lines().rev().take(12).collect::<Vec<_>>().join("\n");
	(out.status.success(), errors, stderr_tail)
}

pub fn attribute(errors: &[CompileError], ranges: &[(usize, usize)]) -> BTreeMap<usize, Vec<String>> {
	let mut by_def: BTreeMap<usize, Vec<String>> = BTreeMap::new();
	for e in errors {
		for l in &e.lines {
			if let Some(i) = ranges.iter().position(|(a, b)| a <= l && l <= b) {
				let v = by_def.entry(i).or_default();
				if !v.contains(&e.message) {
					v.push(e.message.clone());
				}
			}
		}
	}
	by_def
}

// ---------------------------------------------------------------------------------------------
// child side (runs inside the generated program)

fn emit(line: &str) {
	let mut o = std::io::stdout().lock();
	let _ = o.write_all(line.as_bytes());
	let _ = o.write_all(b"\n");
	let _ = o.flush();
}

fn env_u64(k: &str, default: u64) -> u64 {
	std::env::var(k).ok().and_then(|s| s.parse().ok()).unwrap_or(default)
}

/// All checks of one generated type; returns the first violation.
fn check_type(e: &Entry, idx: usize, seed: u64, values: u64, stats: &mut Stats) -> Option<Violation> {
	let has_value = match &e.ty {
		Ty::Enum { variants, .. } => !variants.is_empty(),
		_ => true,
	};
	let mut first: Option<Violation> = None;
	let mut note = |r: Result<(), Violation>, first: &mut Option<Violation>| {
		if let Err(v) = r {
			first.get_or_insert(v);
		}
	};
	for i in 0..values {
		let mut tape = vec![0u8; 384];
		splitmix(seed ^ ((idx as u64) << 32) ^ i.wrapping_mul(0x9E37_79B9)).fill(&mut tape);
		if i == 0 {
			tape.iter_mut().for_each(|b| *b = 0);
		}
		let mut g = Gen::new(&tape);
		if has_value {
			let mut cfg = GenCfg {
				budget: 300,
				allow_skipped_variants: true,
				maximize: e.mel.is_some() && i % 3 == 1,
				..GenCfg::default()
			};
			let v = gen_val(&e.ty, &mut g, &mut cfg);
			let skipped = contains_skipped_variant(&e.ty, &v);
			emit(&format!("CASE {} value {}", e.name, v.brief(160)));
			note(crate::c01::check_value(e, &v, stats), &mut first);
			note(crate::c07::check_entry_points(e, &v, stats), &mut first);
			if skipped {
				stats.class("value in a skipped variant (encodes to nothing)");
			} else {
				let suffix = crate::c02::gen_suffix(&mut g, e);
				note(crate::c02::check_roundtrip(e, &v, &suffix, stats), &mut first);
				let bytes = psc_model::enc::ref_encode(&e.ty, &v);
				note(crate::c12::check_limits(e, &bytes, "valid", stats), &mut first);
			}
			if e.mel.is_some() {
				note(crate::c13::check_lengths(e, &v, stats), &mut first);
			}
			let has_encodable = match &e.ty {
				Ty::Enum { variants, .. } => variants.iter().any(|v| v.index.is_some()),
				_ => true,
			};
			let (bytes, family) = if has_encodable { gen_input(&e.ty, &mut g, 64) } else { (g.bytes(3), "random") };
			note(crate::c03::check_bytes(e, &bytes, family, stats), &mut first);
		}
	}
	// enums: every one of the 256 index bytes, followed by plausible payload
	if let Ty::Enum { variants, .. } = &e.ty {
		for b in 0..=255u8 {
			let mut bytes = vec![b];
			if let Some(i) = variants.iter().position(|v| v.index == Some(b)) {
				let fields: Vec<Val> = {
					let tape = [b; 64];
					let mut g = Gen::new(&tape);
					variants[i].fields.iter().map(|f| gen_val(&f.ty, &mut g, &mut GenCfg { budget: 20, ..GenCfg::default() })).collect()
				};
				bytes = psc_model::enc::ref_encode(&e.ty, &Val::Variant(i, fields));
			} else {
				bytes.extend_from_slice(&[1, 2, 3, 4, 5, 6, 7, 8]);
			}
			note(crate::c03::check_bytes(e, &bytes, "index-byte-sweep", stats), &mut first);
		}
		stats.class("enum: all 256 index bytes");
	}
	first
}

pub fn child_main(entries: Vec<Entry>) -> i32 {
	psc_model::runner::install_quiet_panic_hook();
	let seed = env_u64("VERIF_SEED", 1);
	let values = env_u64("GEN_VALUES", 40);
	let only = std::env::var("GEN_ONLY").ok();
	let skip: Vec<String> = std::env::var("GEN_SKIP").ok().map(|s| s.split(',').map(|x| x.to_string()).collect()).unwrap_or_default();
	let mut stats = Stats::default();
	for (idx, e) in entries.iter().enumerate() {
		if only.as_deref().map_or(false, |o| o != e.name) || skip.iter().any(|s| s == e.name) {
			continue;
		}
		emit(&format!("BEGIN {}", e.name));
		let r = std::panic::catch_unwind(std::panic::AssertUnwindSafe(|| check_type(e, idx, seed, values, &mut stats)));
		match r {
			Ok(None) => {},
			Ok(Some(v)) => emit(&format!("F {}", json!({"type": e.name, "sig": v.sig, "detail": v.detail}))),
			Err(_) => emit(&format!("X {}", json!({"type": e.name, "panic": psc_model::runner::take_panic_message()}))),
		}
		emit(&format!("END {}", e.name));
	}
	emit(&format!("S {}", stats.to_json()));
	emit("D");
	0
}

// ---------------------------------------------------------------------------------------------
// parent side: C05 / C13

pub struct RunOut {
	pub stats: Stats,
	pub failures: Vec<(String, String, String)>, // (type, sig, detail)
	pub broken: Vec<String>,
	pub crashed: Option<(String, String)>, // (type, last case line)
	pub done: bool,
}

fn run_program(exe: &Path, seed: u64, values: u64, only: Option<&str>, skip: &[String]) -> RunOut {
	let mut cmd = Command::new(exe);
	cmd.env("VERIF_SEED", seed.to_string()).env("GEN_VALUES", values.to_string()).stdout(Stdio::piped()).stderr(Stdio::piped());
	if let Some(o) = only {
		cmd.env("GEN_ONLY", o);
	}
	if !skip.is_empty() {
		cmd.env("GEN_SKIP", skip.join(","));
	}
	let out = cmd.output().unwrap_or_else(|e| panic!("harness: cannot run {}: {e}", exe.display()));
	let mut r = RunOut { stats: Stats::default(), failures: vec![], broken: vec![], crashed: None, done: false };
	let mut open: Option<String> = None;
	let mut last_case = String::new();
	for line in String::from_utf8_lossy(&out.stdout).lines() {
		if let Some(n) = line.strip_prefix("BEGIN ") {
			open = Some(n.to_string());
			last_case.clear();
		} else if line.starts_with("END ") {
			open = None;
		} else if let Some(c) = line.strip_prefix("CASE ") {
			last_case = c.to_string();
		} else if let Some(j) = line.strip_prefix("F ") {
			if let Ok(v) = serde_json::from_str::<Value>(j) {
				r.failures.push((
					v["type"].as_str().unwrap_or("").to_string(),
					v["sig"].as_str().unwrap_or("").to_string(),
					v["detail"].as_str().unwrap_or("").to_string(),
				));
			}
		} else if let Some(j) = line.strip_prefix("X ") {
			r.broken.push(j.to_string());
		} else if let Some(j) = line.strip_prefix("S ") {
			if let Ok(v) = serde_json::from_str::<Value>(j) {
				r.stats = Stats::from_json(&v);
			}
		} else if line == "D" {
			r.done = true;
		}
	}
	if !r.done || !out.status.success() {
		match open {
			Some(t) => r.crashed = Some((t, format!("{last_case} — exit {} — {}", out.status, String::from_utf8_lossy(&out.stderr).lines().rev().take(3).collect::<Vec<_>>().join(" | ")))),
			None =>
				if !r.done {
					r.broken.push(format!("generated program ended with {} outside any type", out.status));
				},
		}
	}
	r
}

fn defs_for(ctx: &Ctx, count: usize, mel_bias: bool, salt: u64) -> Vec<Def> {
	let mut defs: Vec<Def> = vec![];
	let mut prior: Vec<String> = vec![];
	for i in 0..count {
		let mut tape = vec![0u8; 512];
		splitmix(ctx.seed ^ salt ^ ((i as u64) << 20)).fill(&mut tape);
		let mut g = Gen::new(&tape);
		let mel = if mel_bias { !g.chance(24) } else { g.chance(72) };
		let d = gen_valid_def(&mut g, &format!("D{i}"), mel, &prior);
		let usable_as_field = d.generics.is_empty() &&
			match &d.body {
				Body::Enum { variants } => variants.iter().any(|v| !v.skip) && variants.len() <= 8,
				_ => true,
			};
		if usable_as_field && prior.len() < 12 {
			prior.push(d.name.clone());
		}
		defs.push(d);
	}
	// the special shapes are always present
	let unit = |name: &str, variants: Vec<VarDef>| Def {
		name: name.to_string(),
		body: Body::Enum { variants },
		generics: vec![],
		inst: vec![],
		transparent: false,
		repr_int: None,
		derive_mel: true,
		derive_compact_as: false,
		dumb_trait_bound: false,
		mel_bound: false,
	};
	let var = |skip: bool| VarDef { index_attr: None, discriminant: None, skip, fields: vec![], tuple: false };
	defs.push(unit("AllSkipped1", vec![var(true)]));
	defs.push(unit("AllSkipped3", vec![var(true), var(true), var(true)]));
	defs.push(unit("Never", vec![]));
	defs.push(unit("SkipFirst", vec![var(true), var(false), var(true), var(false)]));
	// zero-sized in memory yet one byte on the wire: what in-place array/box decoding must still read
	defs.push(unit("OnlyVariant", vec![VarDef { index_attr: Some(7), discriminant: None, skip: false, fields: vec![], tuple: false }]));
	defs.push(unit("OneLiveVariant", vec![var(true), var(false)]));
	// index attribute next to an explicit discriminant (the attribute wins), and discriminant-only variants
	let dv = |index_attr: Option<u32>, discriminant: Option<u32>, skip: bool| VarDef { index_attr, discriminant, skip, fields: vec![], tuple: false };
	defs.push(unit("AttrOverDiscr", vec![dv(Some(7), Some(3), false), dv(None, Some(9), false), dv(None, None, false), dv(Some(0), Some(200), false), dv(None, Some(201), true)]));
	defs
}

/// `Box<D7>` / `[D7; 2]` -> `D7`
fn base_name(entry: &str) -> &str {
	let s = entry.trim_start_matches("Box<").trim_start_matches('[');
	s.split(|c: char| c == '>' || c == ';').next().unwrap_or(s).trim()
}

fn crash_signature(d: &Def) -> String {
	if d.is_all_skipped_enum() {
		"C05/encode-crash/all-variants-skipped".to_string()
	} else {
		format!("C05/crash/{}", d.feature_labels().first().cloned().unwrap_or_default())
	}
}

fn program_replay(d: &Def, seed: u64, values: u64, what: &str) -> Value {
	json!({
		"kind": "program", "what": what, "definition": d.source(false), "model": d.modeled_impl(), "name": d.name,
		"use_type": d.use_type("self").trim_start_matches("self::"), "derive_mel": d.derive_mel, "seed": seed, "values": values,
	})
}

/// Build + run one batch of valid definitions; used by C05 (all checks) and C13 (MEL-biased).
pub fn run_runtime_batch(ctx: &Ctx, report: &mut Report, property: &str, mel_bias: bool, count: usize, values: u64, salt: u64) {
	let mut defs = defs_for(ctx, count, mel_bias, salt);
	// generator self-check: every definition must be valid by the reference predicate
	for d in &defs {
		if let Some(r) = reject_reason(d) {
			report.broken.push(format!("generator produced an invalid definition ({r}): {}", d.source(false)));
			return;
		}
		if let Err(r) = well_formed(d) {
			report.broken.push(format!("generator produced an ill-formed definition ({r}): {}", d.source(false)));
			return;
		}
	}
	let dir = gen_root(property).join(format!("batch{salt}"));
	let crate_name = format!("psc-gen-{}-{salt}", property.to_lowercase());
	let mut rejected: Vec<(Def, Vec<String>)> = vec![];
	let mut built = false;
	for _round in 0..4 {
		let em = emit_runtime_crate(&dir, &crate_name, &defs);
		let (ok, errors, tail) = cargo_json(&dir, &["build", "--release", "--offline"], "src/main.rs");
		if ok {
			built = true;
			break;
		}
		let by_def = attribute(&errors, &em.ranges);
		if by_def.is_empty() {
			report.broken.push(format!(
				"generated crate does not build and no error is attributable to a definition: {} | {tail}",
				errors.iter().map(|e| e.message.clone()).take(3).collect::<Vec<_>>().join(" | ")
			));
			return;
		}
		// drop the suspects (and whatever used them as a field type), confirm each alone later
		let bad: Vec<String> = by_def.keys().map(|i| defs[*i].name.clone()).collect();
		for (i, msgs) in by_def.iter().rev() {
			rejected.push((defs[*i].clone(), msgs.clone()));
			defs.remove(*i);
		}
		defs.retain(|d| {
			let uses = |fs: &[FieldDef]| fs.iter().any(|f| bad.contains(&f.ty));
			!match &d.body {
				Body::Struct { fields, .. } => uses(fields),
				Body::Enum { variants } => variants.iter().any(|v| uses(&v.fields)),
				Body::Union => false,
			}
		});
	}
	// a valid definition that does not compile: confirm alone before reporting
	for (d, msgs) in rejected {
		let solo = gen_root(property).join("solo");
		let mut single = d.clone();
		// field types naming other generated definitions cannot be compiled alone: report as inconclusive
		let em = emit_runtime_crate(&solo, &format!("psc-gen-{}-solo", property.to_lowercase()), std::slice::from_ref(&single));
		let (ok, errors, _) = cargo_json(&solo, &["build", "--release", "--offline"], "src/main.rs");
		let _ = em;
		if !ok && !errors.is_empty() {
			single.name = d.name.clone();
			let feature = d.feature_labels().into_iter().find(|l| l.contains("field") || l.contains("enum") || l.contains("generic")).unwrap_or_default();
			report.direct(
				&ctx.known,
				Violation::new(
					format!("C05/valid-definition-rejected/{feature}"),
					format!("a definition free of the listed faults does not compile:\n{}\ncompiler: {}", d.source(false), errors.iter().map(|e| e.message.clone()).take(3).collect::<Vec<_>>().join(" | ")),
				),
				program_replay(&d, ctx.seed, values, "compile"),
			);
		} else {
			report.broken.push(format!("definition {} failed in the batch ({}) but compiles alone", d.name, msgs.join(" | ")));
		}
	}
	if !built {
		report.broken.push("generated crate still does not build after removing the rejected definitions".into());
		return;
	}
	let exe = gen_target().join("release").join(&crate_name);
	let mut skip: Vec<String> = vec![];
	let mut found: Vec<(usize, Violation, Value)> = vec![];
	for _round in 0..6 {
		let out = run_program(&exe, ctx.seed, values, None, &skip);
		report.stats.merge(out.stats);
		for b in out.broken {
			report.broken.push(format!("generated program: {b}"));
		}
		for (ty, sig, detail) in out.failures {
			// each property judges its own clause: declared lengths belong to C13, everything else to C05
			if (property == "C13") != sig.starts_with("C13/") {
				report.stats.exclude("failure-belonging-to-the-other-program-property");
				continue;
			}
			if let Some(d) = defs.iter().find(|d| d.name == base_name(&ty)) {
				let tail = sig.split_once('/').map(|(_, t)| t.to_string()).unwrap_or(sig.clone());
				let sig = if property == "C13" || sig.starts_with("C13/") { sig.clone() } else { format!("C05/{tail}") };
				found.push((
					d.source(false).len(),
					Violation::new(sig, format!("{detail}\ndefinition:\n{}", d.source(false))),
					program_replay(d, ctx.seed, values, "run"),
				));
			}
		}
		match out.crashed {
			None => break,
			Some((ty, how)) => {
				let Some(d) = defs.iter().find(|d| d.name == base_name(&ty)).cloned() else {
					report.broken.push(format!("generated program died in unknown type {ty}"));
					break;
				};
				// strict re-run of that definition alone: the crash must reproduce
				let again = run_program(&exe, ctx.seed, values, Some(&ty), &[]);
				if property == "C13" {
					// termination of encoding is C05's clause
					report.stats.exclude("crashing-definition-skipped-(C05's clause)");
				} else if again.crashed.is_some() {
					found.push((
						d.source(false).len(),
						Violation::new(
							crash_signature(&d),
							format!("the generated program dies while exercising this definition (reproduced alone): {how}\ndefinition:\n{}", d.source(false)),
						),
						program_replay(&d, ctx.seed, values, "run"),
					));
				} else {
					report.broken.push(format!("generated program died in {ty} ({how}) but not when that definition runs alone"));
				}
				skip.push(ty);
			},
		}
	}
	// one replay per root cause: the smallest definition exhibiting it
	found.sort_by_key(|f| f.0);
	for (_, v, doc) in found {
		report.direct(&ctx.known, v, doc);
	}
	// evidence: programs, attribute histogram
	let mut distinct = std::collections::BTreeSet::new();
	for d in &defs {
		for l in d.feature_labels() {
			report.stats.class(&format!("def:{l}"));
		}
		let nontrivial = d.feature_labels().iter().any(|l| l.contains("field") || l == "generic" || l.contains("index") || l.contains("discriminant") || l.contains("skipped")) ||
			d.index_source_count() >= 2;
		if nontrivial && distinct.insert(d.normalised()) {
			report.stats.nontrivial(&("def", d.normalised()));
		}
	}
	let n = report.stats.extra.get("programs").and_then(|v| v.as_u64()).unwrap_or(0) + defs.len() as u64;
	report.stats.extra.insert("programs".into(), json!(n));
	report.stats.extra.insert("values_per_program".into(), json!(values));
	for d in defs.iter().take(4) {
		let text: String = d.source(false).chars().take(500).collect();
		report.stats.samples.insert(0, json!({"program": text}));
	}
}

pub fn run_c13(ctx: &Ctx, report: &mut Report) {
	let (count, values) = if ctx.tier == Tier::Thorough { (160, 120) } else { (40, 40) };
	run_runtime_batch(ctx, report, "C13", true, count, values, 13);
}

pub fn run_c05(ctx: &Ctx) -> (Level, Report) {
	let mut report = Report::default();
	let (batches, count, values): (u64, usize, u64) = if ctx.tier == Tier::Thorough { (8, 160, 120) } else { (1, 70, 40) };
	for b in 0..batches {
		run_runtime_batch(ctx, &mut report, "C05", false, count, values, 500 + b);
	}
	(
		Level {
			level: "exploration",
			rule: "generated valid derive definitions (shape x field attributes skip/compact/encoded_as x generics x nesting of earlier definitions x \
repr(transparent) with zero-sized companions x index attribute / explicit discriminant / implicit position / skipped variants, 255- and 256-variant \
enums, all-variants-skipped, empty and single-non-skipped-field cases, CompactAs wrappers, dumb_trait_bound), each paired with an impl of the model \
written from the definition; compiled in one crate against /repo and executed: encoding == reference layout (skipped variants encode to nothing, \
termination observed through begin/end markers and a strict re-run), all entry points, round trip, decoder vs reference decoder on mutated strings, \
all 256 index bytes per enum, memory-limit threshold, declared max length. A valid definition that fails to compile is confirmed alone and reported. \
Non-trivial = definition with an attribute, generic parameter, skipped variant or >= 2 index sources; distinct by normalised text.",
			assumptions: vec!["program space is the grammar of DESIGN §4.3", "the definition-derived model states the documented layout"],
		},
		report,
	)
}

// ---------------------------------------------------------------------------------------------
// C17: the compiler's verdict on generated definitions

fn emit_check_crate(dir: &Path, name: &str, defs: &[Def]) -> Emitted {
	let mut src = String::from(
		"#![allow(warnings)]\nuse parity_scale_codec::{Compact, CompactAs, Decode, Encode, HasCompact};\nuse std::marker::PhantomData;\n",
	);
	let mut ranges = vec![];
	for d in defs {
		let start = src.lines().count() + 1;
		src.push_str(&format!("// ---- {}\n", d.name));
		src.push_str(&d.source(true));
		let end = src.lines().count();
		ranges.push((start, end));
	}
	write_file(&dir.join("src/lib.rs"), &src);
	write_file(
		&dir.join("Cargo.toml"),
		&format!(
			"[package]\nname = \"{name}\"\nversion = \"0.1.0\"\nedition = \"2021\"\n\n[dependencies]\nparity-scale-codec = {{ path = \"/repo\", features = [\"derive\"] }}\n\n[workspace]\n"
		),
	);
	let _ = std::fs::copy(verif_root().join("Cargo.lock"), dir.join("Cargo.lock"));
	Emitted { source: src, ranges }
}

/// Compile `defs` in one crate and return, per definition, the attributed error messages.
fn verdicts(dir: &Path, name: &str, defs: &[Def]) -> (BTreeMap<usize, Vec<String>>, Vec<CompileError>) {
	let em = emit_check_crate(dir, name, defs);
	let (_ok, errors, _) = cargo_json(dir, &["check", "--offline"], "src/lib.rs");
	(attribute(&errors, &em.ranges), errors)
}

pub fn run_c17(ctx: &Ctx) -> (Level, Report) {
	let mut report = Report::default();
	let n_random: usize = if ctx.tier == Tier::Thorough { 2500 } else { 300 };
	let mut invalid: Vec<Def> = vec![];
	let mut valid: Vec<Def> = vec![];
	let mut seen = std::collections::BTreeSet::new();
	let mut add = |d: Def, invalid: &mut Vec<Def>, valid: &mut Vec<Def>| {
		if !seen.insert(d.normalised()) {
			return;
		}
		if reject_reason(&d).is_some() {
			invalid.push(d);
		} else {
			valid.push(d);
		}
	};
	for i in 0..n_random {
		let mut tape = vec![0u8; 256];
		splitmix(ctx.seed ^ 0xC17 ^ ((i as u64) << 16)).fill(&mut tape);
		let mut g = Gen::new(&tape);
		let d = gen_c17_enum(&mut g, &format!("E{i}"));
		if reject_reason(&d).is_some() {
			let mut t = valid_twin(&d);
			t.name = format!("T{i}");
			add(t, &mut invalid, &mut valid);
		}
		add(d, &mut invalid, &mut valid);
	}
	for d in c17_fixed_set() {
		if reject_reason(&d).is_some() {
			let mut t = valid_twin(&d);
			t.name = format!("{}Twin", d.name);
			add(t, &mut invalid, &mut valid);
		}
		add(d, &mut invalid, &mut valid);
	}
	// the twins must really be valid by the reference predicate (generator self-check)
	for d in &valid {
		if let Some(r) = reject_reason(d) {
			report.broken.push(format!("generator: twin still invalid ({r}): {}", d.source(true)));
			return (c17_level(), report);
		}
	}
	// invalid programs are compiled in chunks: a crate with very many errors may hit rustc's error limit
	let root = gen_root("C17");
	let mut disagreements: Vec<(Def, bool, String)> = vec![]; // (def, expected_reject, note)
	let chunk = 60;
	for (ci, defs) in invalid.chunks(chunk).enumerate() {
		let (by_def, _) = verdicts(&root.join(format!("reject{ci}")), &format!("psc-c17-reject{ci}"), defs);
		for (i, d) in defs.iter().enumerate() {
			report.stats.eval();
			let reason = reject_reason(d).unwrap();
			report.stats.class(&format!("expected-reject:{reason}"));
			match by_def.get(&i) {
				Some(msgs) if msgs.iter().any(|m| !m.trim().is_empty()) => {},
				_ => disagreements.push((d.clone(), true, "no error attributed in the batch".into())),
			}
		}
	}
	for (ci, defs) in valid.chunks(chunk * 2).enumerate() {
		let (by_def, errors) = verdicts(&root.join(format!("accept{ci}")), &format!("psc-c17-accept{ci}"), defs);
		for (i, d) in defs.iter().enumerate() {
			report.stats.eval();
			report.stats.class("expected-accept");
			if let Some(msgs) = by_def.get(&i) {
				disagreements.push((d.clone(), false, msgs.join(" | ")));
			}
		}
		if by_def.is_empty() && !errors.is_empty() {
			report.broken.push(format!("all-valid batch has unattributable errors: {}", errors[0].message));
		}
	}
	// every disagreement is re-compiled alone before being reported
	report.stats.extra.insert("disagreements_checked".into(), json!(disagreements.len()));
	for (k, (d, expected_reject, note)) in disagreements.into_iter().enumerate() {
		let (by_def, errors) = verdicts(&root.join("solo"), "psc-c17-solo", std::slice::from_ref(&d));
		let rejected = !errors.is_empty();
		let _ = (by_def, k);
		if expected_reject && !rejected {
			let reason = reject_reason(&d).unwrap();
			report.direct(
				&ctx.known,
				Violation::new(
					format!("C17/accepted-invalid/{reason}"),
					format!("a definition that must be rejected ({reason}) compiles without error:\n{}", d.source(true)),
				),
				json!({"kind": "c17-program", "definition": d.source(true), "expected": "reject", "reason": reason}),
			);
		} else if !expected_reject && rejected {
			report.direct(
				&ctx.known,
				Violation::new(
					"C17/rejected-valid",
					format!(
						"a definition free of the listed faults is rejected: {}\n{}",
						errors.iter().map(|e| e.message.clone()).take(2).collect::<Vec<_>>().join(" | "),
						d.source(true)
					),
				),
				json!({"kind": "c17-program", "definition": d.source(true), "expected": "accept"}),
			);
		} else {
			// batching artefact: the isolated verdict agrees with the reference
			report.stats.class("batch-artefact-resolved-in-isolation");
			let _ = note;
		}
	}
	for d in invalid.iter().chain(valid.iter()) {
		if d.index_source_count() >= 2 || matches!(&d.body, Body::Enum { variants } if variants.iter().any(|v| v.skip)) {
			report.stats.nontrivial(&d.normalised());
		}
	}
	report.stats.extra.insert("programs".into(), json!(invalid.len() + valid.len()));
	report.stats.extra.insert("expected_reject".into(), json!(invalid.len()));
	report.stats.extra.insert("expected_accept".into(), json!(valid.len()));
	for d in invalid.iter().take(3).chain(valid.iter().take(2)) {
		let text: String = d.source(true).chars().take(400).collect();
		report.stats.samples.push(json!({"program": text, "reference_verdict": reject_reason(d).unwrap_or("accept")}));
	}
	(c17_level(), report)
}

fn c17_level() -> Level {
	Level {
		level: "exploration",
		rule: "generated enum definitions over {index attribute k, explicit discriminant k, implicit position} x optional skip with k in 0..=300 biased to \
collisions and to 254/255/256/300, 1..8 variants and 255/256/257 non-skipped variants (with and without extra skipped ones), plus the finite set of \
attribute conflicts (skip/compact/encoded_as pairs and triples, as separate attributes and inside one, in multi-field structs, single-field structs and \
enum variants), unions and CompactAs on enum / 0 / 1 / 2 non-skipped fields; every invalid program is paired with a minimally different valid twin; \
all derive Encode and Decode together. Oracle: a reference predicate over the definition vs the compiler's verdict (cargo check, JSON diagnostics \
attributed to definitions through span expansion chains); every disagreement is re-compiled alone before being reported. Non-trivial = definition \
mixing >= 2 index sources or containing a skipped variant; distinct by normalised text.",
		assumptions: vec!["generated discriminants are distinct at the Rust level so the verdict is the codec's, not rustc's E0081"],
	}
}

/// Replay of a program violation: rebuild a one-definition crate from the saved source.
pub fn replay_program(ctx: &Ctx, doc: &Value) -> Option<Result<(), Violation>> {
	match doc["kind"].as_str()? {
		"c17-program" => {
			let dir = gen_root("C17").join("replay");
			let src = format!(
				"#![allow(warnings)]\nuse parity_scale_codec::{{Compact, CompactAs, Decode, Encode, HasCompact}};\nuse std::marker::PhantomData;\n{}",
				doc["definition"].as_str()?
			);
			write_file(&dir.join("src/lib.rs"), &src);
			write_file(
				&dir.join("Cargo.toml"),
				"[package]\nname = \"psc-c17-replay\"\nversion = \"0.1.0\"\nedition = \"2021\"\n\n[dependencies]\nparity-scale-codec = { path = \"/repo\", features = [\"derive\"] }\n\n[workspace]\n",
			);
			let _ = std::fs::copy(verif_root().join("Cargo.lock"), dir.join("Cargo.lock"));
			let (_, errors, _) = cargo_json(&dir, &["check", "--offline"], "src/lib.rs");
			let rejected = !errors.is_empty();
			let expect_reject = doc["expected"] == "reject";
			Some(if rejected == expect_reject {
				Ok(())
			} else {
				Err(Violation::new(
					doc["signature"].as_str().unwrap_or("C17").to_string(),
					format!("expected {}, compiler {}: {}", doc["expected"], if rejected { "rejects" } else { "accepts" }, errors.iter().map(|e| e.message.clone()).take(2).collect::<Vec<_>>().join(" | ")),
				))
			})
		},
		"program" => {
			let dir = gen_root(ctx.property).join("replay");
			let name = doc["name"].as_str()?;
			let t = doc["use_type"].as_str()?;
			let mut src = String::from(PRELUDE);
			src.push_str(doc["definition"].as_str()?);
			src.push_str(doc["model"].as_str()?);
			let mut e = format!("Entry::new::<{t}>(\"{name}\").enc::<{t}>().dec::<{t}>().mem::<{t}>()");
			if doc["derive_mel"] == true {
				e.push_str(&format!(".mel::<{t}>()"));
			}
			src.push_str(&format!(
				"\nfn main() {{\n\tuse psc_bridge::zoo::Entry;\n\tstd::process::exit(psc_checks::programs::child_main(vec![{e}]));\n}}\n"
			));
			let crate_name = format!("psc-gen-{}-replay", ctx.property.to_lowercase());
			emit_runtime_crate(&dir, &crate_name, &[]);
			write_file(&dir.join("src/main.rs"), &src);
			let (ok, errors, _) = cargo_json(&dir, &["build", "--release", "--offline"], "src/main.rs");
			if !ok {
				return Some(Err(Violation::new(
					doc["signature"].as_str().unwrap_or("C05/valid-definition-rejected").to_string(),
					format!("does not compile: {}", errors.iter().map(|e| e.message.clone()).take(3).collect::<Vec<_>>().join(" | ")),
				)));
			}
			let out = run_program(&gen_target().join("release").join(&crate_name), doc["seed"].as_u64().unwrap_or(1), doc["values"].as_u64().unwrap_or(40), None, &[]);
			if let Some((_, how)) = out.crashed {
				return Some(Err(Violation::new(doc["signature"].as_str().unwrap_or("C05/crash").to_string(), format!("the program dies: {how}"))));
			}
			if let Some((_, sig, detail)) = out.failures.into_iter().next() {
				return Some(Err(Violation::new(sig, detail)));
			}
			Some(Ok(()))
		},
		_ => None,
	}
}
