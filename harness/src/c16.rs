//! C16 — types declared to encode alike really do.
//!
//! Every row is instantiated through `like::<A, B>`, whose bound `A: EncodeLike<B>` makes the
//! compiler certify that the pair really is declared by the crate.

use crate::common::*;
use parity_scale_codec::{Compact, CompactRef, Decode, Encode, EncodeLike, Ref};
use psc_bridge::{derived::*, Modeled};
use psc_model::{
	dec::ref_decode,
	enc::ref_encode,
	gen::Gen,
	runner::{guard, CheckFn},
	serde_json::json,
	stats::*,
	ty::*,
	valgen::*,
};
use std::{
	borrow::Cow,
	collections::{BTreeMap, BTreeSet, BinaryHeap, LinkedList, VecDeque},
	rc::Rc,
	sync::Arc,
};

fn like<A: EncodeLike<B>, B: Encode>(a: &A) -> Vec<u8> {
	a.encode()
}

type RowFn = Box<dyn Fn(&mut Gen, &mut Stats) -> Result<(), Violation> + Sync>;

/// One row: owner type `O` (model of what the `A` form stands for), the `A` form built from a
/// borrowed owner, target `B`, decode type `D` (B itself when decodable, else its owned twin).
fn row<O, D>(name: &'static str, enc: fn(&O) -> Vec<u8>) -> (&'static str, RowFn)
where
	O: Modeled + 'static,
	D: Modeled + Decode + Encode + 'static,
{
	(
		name,
		Box::new(move |g: &mut Gen, stats: &mut Stats| {
			let oty = O::ty();
			let dty = D::ty();
			let mut cfg = GenCfg { budget: 400, ..GenCfg::default() };
			let mut v = gen_val(&oty, g, &mut cfg);
			// slices standing for maps/sets/heaps: also unsorted and duplicate entries
			if let (Val::Seq(items), true) = (&mut v, matches!(oty, Ty::Seq { kind: SeqKind::Vec, .. }) && g.chance(96)) {
				if items.len() >= 2 {
					let i = g.below(items.len());
					let j = g.below(items.len());
					items.swap(i, j);
					if g.bool() {
						let dup = items[i].clone();
						items.push(dup);
					}
				}
			}
			let o = O::from_val(&v);
			let bytes = guard(|| enc(&o)).map_err(|p| Violation::new(format!("C16/panic/{}", sanitize(name)), format!("row {name}: {p}")))?;
			let expected = ref_encode(&oty, &o.to_val());
			stats.eval();
			stats.class(&format!("row:{name}"));
			if bytes.len() >= 2 {
				stats.nontrivial(&(name, &bytes));
			}
			stats.sample(|| json!({"row": name, "value": v.brief(100), "bytes": hex(&bytes)}));
			if bytes != expected {
				return Err(Violation::new(
					format!("C16/bytes/{}", sanitize(name)),
					format!("row {name}: the alias form encodes to {} but the value it stands for encodes to {}\nvalue {}", hex(&bytes), hex(&expected), v.brief(300)),
				));
			}
			// decode as B: must succeed with the corresponding logical value
			let want = ref_decode(&dty, &bytes);
			let mut input = &bytes[..];
			let got = guard(|| D::decode(&mut input).map(|d| d.to_val()))
				.map_err(|p| Violation::new(format!("C16/panic/{}", sanitize(name)), format!("row {name}: decode panicked: {p}")))?;
			match (&want, &got) {
				(Ok((w, used)), Ok(gv)) if *used == bytes.len() && input.is_empty() && eqv(&normalize(&dty, w), &normalize(&dty, gv)) => {},
				_ =>
					return Err(Violation::new(
						format!("C16/decode-as-target/{}", sanitize(name)),
						format!(
							"row {name}: bytes {} of the alias form do not decode as the target type to the corresponding value\nreference {:?}\ncrate {:?}",
							hex(&bytes),
							want.as_ref().map(|(v, u)| (v.brief(200), *u)),
							got.as_ref().map(|v| v.brief(200)).map_err(|e| e.to_string())
						),
					)),
			}
			// where the correspondence is canonical, the target's own encoding is byte-identical
			if let Ok((w, _)) = &want {
				if ref_encode(&dty, w) == bytes && !matches!(dty, Ty::Seq { kind: SeqKind::BinaryHeap, .. }) {
					let d = D::from_val(w);
					let own = d.encode();
					stats.class("canonical byte comparison");
					if own != bytes {
						return Err(Violation::new(
							format!("C16/target-bytes/{}", sanitize(name)),
							format!("row {name}: target value encodes to {} but the alias form to {}", hex(&own), hex(&bytes)),
						));
					}
				}
			}
			Ok(())
		}),
	)
}

macro_rules! rows {
	($v:ident; $( $name:literal : $o:ty => |$x:ident| $a:ty , $b:ty , $d:ty , $e:expr ;)*) => {$(
		$v.push(row::<$o, $d>($name, |$x: &$o| like::<$a, $b>(&$e)));
	)*}
}

pub fn table() -> Vec<(&'static str, RowFn)> {
	let mut v: Vec<(&'static str, RowFn)> = vec![];
	rows! {v;
		// references, boxes, shared pointers, copy-on-write
		"&T : T" : u32 => |x| &u32, u32, u32, x;
		"T : &T" : u32 => |x| u32, &u32, u32, *x;
		"&&T : T" : Vec<u8> => |x| &&Vec<u8>, Vec<u8>, Vec<u8>, &x;
		"T : &&T" : u64 => |x| u64, &&u64, u64, *x;
		"&mut T : T" : String => |x| &mut String, String, String, &mut x.clone();
		"T : &mut T" : u16 => |x| u16, &mut u16, u16, *x;
		"Box<T> : T" : (u8, String) => |x| Box<(u8, String)>, (u8, String), (u8, String), Box::new(x.clone());
		"T : Box<T>" : Vec<u16> => |x| Vec<u16>, Box<Vec<u16>>, Box<Vec<u16>>, x.clone();
		"Rc<T> : T" : Option<u32> => |x| Rc<Option<u32>>, Option<u32>, Option<u32>, Rc::new(*x);
		"T : Rc<T>" : u128 => |x| u128, Rc<u128>, Rc<u128>, *x;
		"Arc<T> : T" : String => |x| Arc<String>, String, String, Arc::new(x.clone());
		"T : Arc<T>" : [u8; 4] => |x| [u8; 4], Arc<[u8; 4]>, Arc<[u8; 4]>, *x;
		"Cow<T> : T (borrowed)" : Vec<u32> => |x| Cow<Vec<u32>>, Vec<u32>, Vec<u32>, Cow::Borrowed(x);
		"Cow<T> : T (owned)" : String => |x| Cow<String>, String, String, Cow::<String>::Owned(x.clone());
		"T : Cow<T>" : u32 => |x| u32, Cow<u32>, u32, *x;
		"Box<T> : Box<T>" : u8 => |x| Box<u8>, Box<u8>, Box<u8>, Box::new(*x);
		// strings, slices, vectors, deques, byte buffers
		"String : &str" : String => |x| String, &str, String, x.clone();
		"&str : String" : String => |x| &str, String, String, x.as_str();
		"Vec<T> : Vec<U>" : Vec<u32> => |x| Vec<&u32>, Vec<u32>, Vec<u32>, x.iter().collect::<Vec<&u32>>();
		"Vec<T> : &[U]" : Vec<String> => |x| Vec<String>, &[String], Vec<String>, x.clone();
		"&[T] : Vec<U>" : Vec<(u8, u16)> => |x| &[(u8, u16)], Vec<(u8, u16)>, Vec<(u8, u16)>, &x[..];
		"VecDeque<T> : Vec<U>" : Vec<u16> => |x| VecDeque<u16>, Vec<u16>, Vec<u16>, wrapped_deque(x);
		"Vec<T> : VecDeque<U>" : Vec<String> => |x| Vec<String>, VecDeque<String>, VecDeque<String>, x.clone();
		"VecDeque<T> : &[U]" : Vec<u64> => |x| VecDeque<u64>, &[u64], Vec<u64>, wrapped_deque(x);
		"&[T] : VecDeque<U>" : Vec<u8> => |x| &[u8], VecDeque<u8>, VecDeque<u8>, &x[..];
		"VecDeque<T> : VecDeque<T>" : Vec<Option<u8>> => |x| VecDeque<Option<u8>>, VecDeque<Option<u8>>, VecDeque<Option<u8>>, wrapped_deque(x);
		"Bytes : &[u8]" : Vec<u8> => |x| bytes::Bytes, &[u8], Vec<u8>, bytes::Bytes::from(x.clone());
		"Bytes : Vec<u8>" : Vec<u8> => |x| bytes::Bytes, Vec<u8>, Vec<u8>, bytes::Bytes::from(x.clone());
		"&[u8] : Bytes" : Vec<u8> => |x| &[u8], bytes::Bytes, bytes::Bytes, &x[..];
		"Vec<u8> : Bytes" : Vec<u8> => |x| Vec<u8>, bytes::Bytes, bytes::Bytes, x.clone();
		// element-wise collection aliases
		"BTreeMap<K,V> : BTreeMap<LK,LV>" : BTreeMap<u8, String> => |x| BTreeMap<&u8, &String>, BTreeMap<u8, String>, BTreeMap<u8, String>, x.iter().collect::<BTreeMap<&u8, &String>>();
		"BTreeMap<K,V> : &[(LK,LV)]" : BTreeMap<u16, u32> => |x| BTreeMap<u16, u32>, &[(u16, u32)], Vec<(u16, u32)>, x.clone();
		"&[(K,V)] : BTreeMap<LK,LV>" : Vec<(u8, u16)> => |x| &[(u8, u16)], BTreeMap<u8, u16>, BTreeMap<u8, u16>, &x[..];
		"BTreeSet<T> : BTreeSet<LT>" : BTreeSet<u32> => |x| BTreeSet<&u32>, BTreeSet<u32>, BTreeSet<u32>, x.iter().collect::<BTreeSet<&u32>>();
		"BTreeSet<T> : &[(LT,)]" : BTreeSet<u8> => |x| BTreeSet<u8>, &[(u8,)], Vec<(u8,)>, x.clone();
		"&[(T,)] : BTreeSet<LT>" : Vec<(u16,)> => |x| &[(u16,)], BTreeSet<u16>, BTreeSet<u16>, &x[..];
		"LinkedList<T> : LinkedList<LT>" : LinkedList<String> => |x| LinkedList<&String>, LinkedList<String>, LinkedList<String>, x.iter().collect::<LinkedList<&String>>();
		"&[(T,)] : LinkedList<LT>" : Vec<(u32,)> => |x| &[(u32,)], LinkedList<u32>, LinkedList<u32>, &x[..];
		"LinkedList<T> : &[(LT,)]" : LinkedList<u8> => |x| LinkedList<u8>, &[(u8,)], Vec<(u8,)>, x.clone();
		"BinaryHeap<T> : BinaryHeap<LT>" : BinaryHeap<u16> => |x| BinaryHeap<u16>, BinaryHeap<u16>, BinaryHeap<u16>, x.clone();
		"&[(T,)] : BinaryHeap<LT>" : Vec<(u8,)> => |x| &[(u8,)], BinaryHeap<u8>, BinaryHeap<u8>, &x[..];
		// the same aliases over elements that are zero-sized in memory but not on the wire (and over `()`)
		"&[(T,)] : LinkedList<LT> (zero-sized T)" : Vec<(Marker,)> => |x| &[(Marker,)], LinkedList<Marker>, LinkedList<Marker>, &x[..];
		"&[(T,)] : BTreeSet<LT> (zero-sized T)" : Vec<(Marker,)> => |x| &[(Marker,)], BTreeSet<Marker>, BTreeSet<Marker>, &x[..];
		"&[(K,V)] : BTreeMap<LK,LV> (zero-sized K,V)" : Vec<(Marker, MarkerPair)> => |x| &[(Marker, MarkerPair)], BTreeMap<Marker, MarkerPair>, BTreeMap<Marker, MarkerPair>, &x[..];
		"Vec<&T> : Vec<T> (zero-sized T)" : Vec<Marker> => |x| Vec<&Marker>, Vec<Marker>, Vec<Marker>, x.iter().collect::<Vec<&Marker>>();
		"VecDeque<&T> : Vec<T> (zero-sized T)" : Vec<MarkerPair> => |x| VecDeque<&MarkerPair>, Vec<MarkerPair>, Vec<MarkerPair>, x.iter().collect::<VecDeque<&MarkerPair>>();
		"&[T] : Vec<T> (zero-sized T)" : Vec<Marker> => |x| &[Marker], Vec<Marker>, Vec<Marker>, &x[..];
		"Vec<T> : VecDeque<T> (zero-sized T)" : Vec<MarkerPair> => |x| Vec<MarkerPair>, VecDeque<MarkerPair>, VecDeque<MarkerPair>, x.clone();
		"[&T;N] : [T;N] (zero-sized T)" : [Marker; 3] => |x| [&Marker; 3], [Marker; 3], [Marker; 3], [&x[0], &x[1], &x[2]];
		"LinkedList<T> : &[(LT,)] (zero-sized T)" : LinkedList<Marker> => |x| LinkedList<Marker>, &[(Marker,)], Vec<(Marker,)>, x.clone();
		"&[()] : Vec<()>" : Vec<()> => |x| &[()], Vec<()>, Vec<()>, &x[..];
		"Vec<&()> : VecDeque<()>" : Vec<()> => |x| Vec<&()>, VecDeque<()>, VecDeque<()>, x.iter().collect::<Vec<&()>>();
		// option, result, array, tuples
		"Option<T> : Option<U>" : Option<u32> => |x| Option<&u32>, Option<u32>, Option<u32>, x.as_ref();
		"Result<T,E> : Result<LT,LE>" : Result<u8, String> => |x| Result<&u8, &String>, Result<u8, String>, Result<u8, String>, x.as_ref();
		"[T;N] : [U;N]" : [u16; 3] => |x| [&u16; 3], [u16; 3], [u16; 3], [&x[0], &x[1], &x[2]];
		"(A,) : (A',)" : (u32,) => |x| (&u32,), (u32,), (u32,), (&x.0,);
		"(A,B) : (A',B')" : (u8, String) => |x| (&u8, &String), (u8, String), (u8, String), (&x.0, &x.1);
		"(A,B,C) : (A',B',C')" : (u8, Vec<u8>, bool) => |x| (u8, &Vec<u8>, Box<bool>), (u8, Vec<u8>, bool), (u8, Vec<u8>, bool), (x.0, &x.1, Box::new(x.2));
		"18-tuple : 18-tuple" : (u8, u8, u8, u8, u8, u8, u8, u8, u8, u8, u8, u8, u8, u8, u8, u8, u8, u16)
			=> |x| (&u8, u8, u8, u8, u8, u8, u8, u8, u8, u8, u8, u8, u8, u8, u8, u8, u8, &u16),
			(u8, u8, u8, u8, u8, u8, u8, u8, u8, u8, u8, u8, u8, u8, u8, u8, u8, u16),
			(u8, u8, u8, u8, u8, u8, u8, u8, u8, u8, u8, u8, u8, u8, u8, u8, u8, u16),
			(&x.0, x.1, x.2, x.3, x.4, x.5, x.6, x.7, x.8, x.9, x.10, x.11, x.12, x.13, x.14, x.15, x.16, &x.17);
		// compact, generic reference wrapper
		"Compact<T> : Compact<T>" : Compact<u64> => |x| Compact<u64>, Compact<u64>, Compact<u64>, Compact(x.0);
		"Ref<T,U> : U" : Vec<u32> => |x| Ref<Vec<u32>, Vec<u32>>, Vec<u32>, Vec<u32>, Ref::from(x);
		"&Ref<T,U> : U" : String => |x| &Ref<String, String>, String, String, &Ref::from(x);
		"Ref<&[T],Vec<T>> : Vec<T>" : Vec<u16> => |x| Ref<&[u16], Vec<u16>>, Vec<u16>, Vec<u16>, Ref::from(&&x[..]);
		// bit sequences, generic arrays, derived, misc self-likes
		"BitVec : BitVec" : bitvec::vec::BitVec<u8, bitvec::order::Msb0> => |x| bitvec::vec::BitVec<u8, bitvec::order::Msb0>, bitvec::vec::BitVec<u8, bitvec::order::Msb0>, bitvec::vec::BitVec<u8, bitvec::order::Msb0>, x.clone();
		"BitBox : BitBox" : bitvec::boxed::BitBox<u16, bitvec::order::Lsb0> => |x| bitvec::boxed::BitBox<u16, bitvec::order::Lsb0>, bitvec::boxed::BitBox<u16, bitvec::order::Lsb0>, bitvec::boxed::BitBox<u16, bitvec::order::Lsb0>, x.clone();
		"GenericArray : GenericArray" : generic_array::GenericArray<u16, generic_array::typenum::U3> => |x| generic_array::GenericArray<u16, generic_array::typenum::U3>, generic_array::GenericArray<u16, generic_array::typenum::U3>, generic_array::GenericArray<u16, generic_array::typenum::U3>, x.clone();
		"derived struct : Self" : Nested => |x| Nested, Nested, Nested, x.clone();
		"&derived enum : Self" : Data => |x| &Data, Data, Data, x;
		"Vec<&derived> : Vec<derived>" : Vec<Named> => |x| Vec<&Named>, Vec<Named>, Vec<Named>, x.iter().collect::<Vec<&Named>>();
		"Duration : Duration" : std::time::Duration => |x| std::time::Duration, std::time::Duration, std::time::Duration, *x;
		"OptionBool : OptionBool" : parity_scale_codec::OptionBool => |x| parity_scale_codec::OptionBool, parity_scale_codec::OptionBool, parity_scale_codec::OptionBool, *x;
		"NonZeroU32 : NonZeroU32" : std::num::NonZeroU32 => |x| std::num::NonZeroU32, std::num::NonZeroU32, std::num::NonZeroU32, *x;
		"PhantomData : PhantomData" : std::marker::PhantomData<u8> => |x| std::marker::PhantomData<u8>, std::marker::PhantomData<u8>, std::marker::PhantomData<u8>, *x;
		"() : ()" : () => |x| (), (), (), *x;
	}
	// (CompactRef<primitive> is not declared EncodeLike by the crate: only CompactRef<T: CompactAs> is)
	v.push(row::<Compact<u128>, Compact<u128>>("Compact<u128> : Compact<u128>", |x| like::<Compact<u128>, Compact<u128>>(x)));
	v.push(row::<Compact<CWrap>, Compact<CWrap>>("CompactRef<CompactAs> : Self", cref_cwrap));
	probed_rows(&mut v);
	v
}

/// Compile-time probe "does the crate declare `A: EncodeLike<B>`?" (inherent method wins over the trait's fallback
/// when the bound holds). Used for pairs the crate does NOT declare today and that would be false if it did — a byte
/// container is not always a string: if such a declaration appears, its row is checked like any other.
pub struct LikeProbe<A, B>(pub std::marker::PhantomData<(A, B)>);
pub trait LikeFallback {
	fn declared(&self) -> bool {
		false
	}
}
impl<A, B> LikeFallback for LikeProbe<A, B> {}
impl<A: EncodeLike<B>, B: Encode> LikeProbe<A, B> {
	pub fn declared(&self) -> bool {
		true
	}
}

macro_rules! probe_rows {
	($v:ident; $( $name:literal : $a:ty => $b:ty ;)*) => {$(
		{
			#[allow(unused_imports)]
			use LikeFallback as _;
			if LikeProbe::<$a, $b>(std::marker::PhantomData).declared() {
				$v.push(row::<$a, $b>($name, |x: &$a| x.encode()));
			}
		}
	)*}
}

fn probed_rows(v: &mut Vec<(&'static str, RowFn)>) {
	probe_rows! {v;
		"(probe) Vec<u8> : String" : Vec<u8> => String;
		"(probe) VecDeque<u8> : String" : VecDeque<u8> => String;
		"(probe) Bytes : String" : bytes::Bytes => String;
		"(probe) Vec<u16> : Vec<u8>" : Vec<u16> => Vec<u8>;
		"(probe) Vec<u8> : Vec<u16>" : Vec<u8> => Vec<u16>;
		"(probe) Vec<u8> : Vec<bool>" : Vec<u8> => Vec<bool>;
		"(probe) u32 : Compact<u32>" : u32 => Compact<u32>;
		"(probe) Compact<u32> : u32" : Compact<u32> => u32;
		"(probe) Vec<u8> : [u8; 4]" : Vec<u8> => [u8; 4];
		"(probe) [u8; 4] : Vec<u8>" : [u8; 4] => Vec<u8>;
		"(probe) Option<u8> : Result<u8, ()>" : Option<u8> => Result<u8, ()>;
		"(probe) bool : u8" : bool => u8;
		"(probe) u8 : bool" : u8 => bool;
		"(probe) u32 : std::num::NonZeroU32" : u32 => std::num::NonZeroU32;
		"(probe) Vec<u8> : bitvec BitVec<u8, Lsb0>" : Vec<u8> => bitvec::vec::BitVec<u8, bitvec::order::Lsb0>;
	}
}

fn cref_cwrap(x: &Compact<CWrap>) -> Vec<u8> {
	like::<CompactRef<'_, CWrap>, CompactRef<'_, CWrap>>(&CompactRef(&x.0))
}

fn wrapped_deque<T: Clone + Default>(items: &[T]) -> VecDeque<T> {
	let mut d = VecDeque::with_capacity(items.len() + 1);
	let rot = items.len() / 2 + 1;
	for _ in 0..rot {
		d.push_back(T::default());
	}
	for _ in 0..rot {
		d.pop_front();
	}
	d.extend(items.iter().cloned());
	d
}

/// `impl ... EncodeLike<...> for ...` headers in /repo/src (information for the evidence).
fn scan_impls() -> (usize, Vec<String>) {
	let mut n = 0;
	let mut heads = vec![];
	for f in ["codec.rs", "encode_like.rs", "compact.rs", "bit_vec.rs", "generic_array.rs"] {
		if let Ok(s) = std::fs::read_to_string(format!("/repo/src/{f}")) {
			for line in s.lines() {
				let t = line.trim();
				if t.starts_with("impl") && t.contains("EncodeLike") {
					n += 1;
					if heads.len() < 200 {
						heads.push(format!("{f}: {t}"));
					}
				}
			}
		}
	}
	(n, heads)
}

pub fn tape_checks(_ctx: &Ctx) -> Vec<(&'static str, Box<CheckFn<'_>>)> {
	let rows = table();
	vec![(
		"rows",
		Box::new(move |g: &mut Gen, stats: &mut Stats| {
			let (_, f) = &rows[g.below(rows.len())];
			f(g, stats)
		}),
	)]
}

pub fn run(ctx: &Ctx) -> (Level, Report) {
	let mut report = Report::default();
	for (name, check) in tape_checks(ctx) {
		let out = ctx.random(name, 800_000, 10, 1024, &*check);
		report.absorb(name, out);
	}
	let (n, heads) = scan_impls();
	report.stats.extra.insert("rows_in_table".into(), json!(table().len()));
	report.stats.extra.insert("encode_like_impl_headers_in_repo_src".into(), json!(n));
	report.stats.extra.insert("impl_headers_sample".into(), json!(heads.into_iter().take(12).collect::<Vec<_>>()));
	(
		Level {
			level: "exploration",
			rule: "a table of EncodeLike<B> for A rows (references, &&, &mut, Box, Rc, Arc, Cow, String/&str, Bytes/&[u8]/Vec<u8>, Vec/&[T]/VecDeque \
element-wise, &[(K,V)]/BTreeMap, &[(T,)]/BTreeSet|LinkedList|BinaryHeap, Option, Result, [T;N], tuples incl. arity 18, Compact/CompactRef, \
Ref and &Ref, BitVec/BitBox, GenericArray, derived EncodeLike<Self>), each instantiated through a generic function bounded by A: EncodeLike<B>. \
Values generated from the model type of the owner; slices standing for maps/sets/heaps are also generated unsorted and with duplicates. Oracle: \
A's bytes == reference encoding of the value it stands for; decoding those bytes as B succeeds with the reference decoder's value (last-wins maps, \
heaps as multisets); where the correspondence is canonical B's own encoding is byte-identical. Non-trivial = encoding >= 2 bytes.",
			assumptions: vec!["the table is hand-maintained; the number of impl headers found in /repo/src is recorded for comparison"],
		},
		report,
	)
}
