//! Registry of the tape-driven sub-checks of every property (used by replay, workers and fuzz targets).
use crate::{common::*, *};
use psc_model::runner::CheckFn;

pub fn tape_checks<'a>(ctx: &'a Ctx) -> Vec<(&'static str, Box<CheckFn<'a>>)> {
	match ctx.property {
		"C01" => c01::tape_checks(ctx),
		"C02" => c02::tape_checks(ctx),
		"C03" => c03::tape_checks(ctx),
		"C07" => c07::tape_checks(ctx),
		"C08" => c08::tape_checks(ctx),
		"C14" => c14::tape_checks(ctx),
		"C18" => c18::tape_checks(ctx),
		"C19" => c19::tape_checks(ctx),
		"C11" => c11::tape_checks(ctx),
		"C12" => c12::tape_checks(ctx),
		"C13" => c13::tape_checks(ctx),
		"C15" => c15::tape_checks(ctx),
		"C16" => c16::tape_checks(ctx),
		"C06" => c06::tape_checks(ctx),
		"C10" => c10::tape_checks(ctx),
		"C09" => c09::tape_checks(ctx),
		_ => vec![],
	}
}

