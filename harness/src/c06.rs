//! C06 — encoding depends only on logical content (deterministic, layout-free).

use crate::common::*;
use bitvec::{order::{Lsb0, Msb0}, store::BitStore, vec::BitVec};
use parity_scale_codec::{Encode, EncodeLike, Ref};
use psc_bridge::{modeled::OrderModel, Modeled};
use psc_model::{
	enc::{compact_bytes, ref_encode},
	gen::Gen,
	runner::{guard, CheckFn},
	serde_json::json,
	stats::*,
	ty::*,
	valgen::*,
};
use std::{
	borrow::Cow,
	collections::{BTreeMap, BTreeSet, BinaryHeap, LinkedList, VecDeque},
	rc::Rc,
	sync::Arc,
};

fn gen_item<T: Modeled>(g: &mut Gen) -> T {
	let mut cfg = GenCfg { budget: 8, ..GenCfg::default() };
	T::from_val(&gen_val(&T::ty(), g, &mut cfg))
}

fn seq_bytes<T: Modeled>(model: &[T]) -> Vec<u8> {
	let ty = Ty::vec(T::ty(), std::mem::size_of::<T>());
	ref_encode(&ty, &T::seq_to_val(model.iter(), model.len()))
}

fn mismatch(kind: &str, what: &str, trace: &[String], got: &[u8], want: &[u8]) -> Violation {
	Violation::new(
		format!("C06/{kind}/{what}"),
		format!(
			"{kind} history {:?}: {what}: encoding {} differs from the encoding of its logical content {}",
			&trace[trace.len().saturating_sub(12)..],
			hex(got),
			hex(want)
		),
	)
}

pub fn deque_history<T: Modeled + Encode + Clone>(g: &mut Gen, stats: &mut Stats) -> Result<(), Violation> {
	let tname = T::ty().short_name();
	let cap = *g.pick(&[0usize, 1, 2, 4, 7, 8, 16, 33]);
	let mut dq: VecDeque<T> = VecDeque::with_capacity(cap);
	let mut model: Vec<T> = vec![];
	let mut trace = vec![format!("with_capacity({cap})")];
	let steps = 4 + g.below(40);
	let mut wrapped_encodes = 0u32;
	for _ in 0..steps {
		match g.below(16) {
			0 | 1 | 2 => {
				let x: T = gen_item(g);
				dq.push_back(x.clone());
				model.push(x);
				trace.push("push_back".into());
			},
			3 | 4 => {
				let x: T = gen_item(g);
				dq.push_front(x.clone());
				model.insert(0, x);
				trace.push("push_front".into());
			},
			5 | 6 => {
				dq.pop_front();
				if !model.is_empty() {
					model.remove(0);
				}
				trace.push("pop_front".into());
			},
			7 => {
				dq.pop_back();
				model.pop();
				trace.push("pop_back".into());
			},
			8 if !model.is_empty() => {
				let k = g.below(model.len() + 1);
				dq.rotate_left(k);
				model.rotate_left(k);
				trace.push(format!("rotate_left({k})"));
			},
			9 if !model.is_empty() => {
				let k = g.below(model.len() + 1);
				dq.rotate_right(k);
				model.rotate_right(k);
				trace.push(format!("rotate_right({k})"));
			},
			10 => {
				if g.chance(64) {
					dq.make_contiguous();
					trace.push("make_contiguous".into());
				} else {
					// fill to capacity then pop front / push back: wraps the ring
					while dq.len() < dq.capacity().min(40) {
						let x: T = gen_item(g);
						dq.push_back(x.clone());
						model.push(x);
					}
					for _ in 0..1 + g.below(3) {
						dq.pop_front();
						if !model.is_empty() {
							model.remove(0);
						}
						let x: T = gen_item(g);
						dq.push_back(x.clone());
						model.push(x);
					}
					trace.push("fill+cycle".into());
				}
			},
			11 => {
				let n = g.below(20);
				dq.reserve(n);
				trace.push(format!("reserve({n})"));
			},
			12 => {
				dq.shrink_to_fit();
				trace.push("shrink_to_fit".into());
			},
			13 => {
				let i = g.below(model.len() + 1);
				let x: T = gen_item(g);
				dq.insert(i, x.clone());
				model.insert(i, x);
				trace.push(format!("insert({i})"));
			},
			14 if !model.is_empty() => {
				let i = g.below(model.len());
				dq.remove(i);
				model.remove(i);
				trace.push(format!("remove({i})"));
			},
			_ => {
				let n = g.below(model.len() + 1);
				dq.truncate(n);
				model.truncate(n);
				trace.push(format!("truncate({n})"));
			},
		}
		// invariant after every step
		let want = seq_bytes(&model);
		let wrapped = !dq.as_slices().1.is_empty();
		let got = guard(|| dq.encode()).map_err(|p| Violation::new("C06/panic/deque", format!("{p}; trace {trace:?}")))?;
		if wrapped {
			wrapped_encodes += 1;
			stats.class("deque encode: ring wrapped");
		} else {
			stats.class("deque encode: contiguous");
		}
		if got != want {
			return Err(mismatch("deque", if wrapped { "wrapped" } else { "contiguous" }, &trace, &got, &want));
		}
		let again = dq.encode();
		let fresh: VecDeque<T> = model.iter().cloned().collect();
		if again != got || fresh.encode() != got || model.encode() != got {
			return Err(mismatch("deque", "fresh-copy", &trace, &fresh.encode(), &got));
		}
	}
	stats.eval();
	stats.class(&format!("deque<{tname}>"));
	if wrapped_encodes > 0 {
		stats.nontrivial(&(tname.as_str(), &trace));
	}
	stats.sample(|| json!({"structure": format!("VecDeque<{tname}>"), "ops": trace.len(), "wrapped_encodes": wrapped_encodes, "history_tail": trace.iter().rev().take(8).collect::<Vec<_>>()}));
	Ok(())
}

pub fn vec_history<T: Modeled + Encode + Clone>(g: &mut Gen, stats: &mut Stats) -> Result<(), Violation> {
	let tname = T::ty().short_name();
	let cap = g.below(40);
	let mut v: Vec<T> = Vec::with_capacity(cap);
	let mut trace = vec![format!("with_capacity({cap})")];
	let mut spare = false;
	for _ in 0..3 + g.below(20) {
		match g.below(6) {
			0 | 1 => {
				v.push(gen_item(g));
				trace.push("push".into());
			},
			2 => {
				v.pop();
				trace.push("pop".into());
			},
			3 => {
				let n = g.below(64);
				v.reserve(n);
				trace.push(format!("reserve({n})"));
			},
			4 => {
				v.shrink_to_fit();
				trace.push("shrink_to_fit".into());
			},
			_ => {
				let n = g.below(v.len() + 1);
				v.truncate(n);
				trace.push(format!("truncate({n})"));
			},
		}
		let want = seq_bytes(&v);
		let got = v.encode();
		if v.capacity() > v.len() {
			spare = true;
			stats.class("vec encode: spare capacity");
		}
		let exact: Vec<T> = v.iter().cloned().collect::<Vec<T>>().into_boxed_slice().into_vec();
		if got != want || exact.encode() != got || v.encode() != got {
			return Err(mismatch("vec", "capacity", &trace, &got, &want));
		}
	}
	stats.eval();
	stats.class(&format!("vec<{tname}>"));
	if spare {
		stats.nontrivial(&("vec", tname.as_str(), &trace));
	}
	Ok(())
}

pub fn string_history(g: &mut Gen, stats: &mut Stats) -> Result<(), Violation> {
	let mut s = String::with_capacity(g.below(64));
	let mut trace = vec![];
	for _ in 0..2 + g.below(12) {
		match g.below(5) {
			0 | 1 => {
				let n = g.below(6);
				let piece = String::from_utf8(gen_string(g, n)).unwrap();
				s.push_str(&piece);
				trace.push(format!("push_str({} bytes)", piece.len()));
			},
			2 => {
				s.pop();
				trace.push("pop".into());
			},
			3 => {
				s.reserve(g.below(100));
				trace.push("reserve".into());
			},
			_ => {
				s.shrink_to_fit();
				trace.push("shrink_to_fit".into());
			},
		}
		let want = ref_encode(&Ty::Str, &Val::Bytes(s.as_bytes().to_vec()));
		let got = s.encode();
		let fresh = s.as_str().to_owned();
		if got != want || fresh.encode() != got || s.as_str().encode() != got {
			return Err(mismatch("string", "capacity", &trace, &got, &want));
		}
	}
	stats.eval();
	stats.class("string");
	if s.capacity() > s.len() {
		stats.nontrivial(&("string", &trace));
	}
	Ok(())
}

pub fn map_history(g: &mut Gen, stats: &mut Stats) -> Result<(), Violation> {
	// the same final content reached along two different insertion/removal orders
	let n = g.below(40);
	let mut entries: Vec<(u16, String)> = (0..n).map(|_| (g.u16() % 64, String::from_utf8(gen_string(g, 3)).unwrap())).collect();
	let mut m1: BTreeMap<u16, String> = BTreeMap::new();
	let mut s1: BTreeSet<u16> = BTreeSet::new();
	let mut removed = false;
	let mut ops = 0;
	for (k, v) in &entries {
		m1.insert(*k, v.clone());
		s1.insert(*k);
		ops += 1;
		if g.chance(48) {
			// remove some earlier key, maybe re-insert it later
			let victim = g.u16() % 64;
			if m1.remove(&victim).is_some() {
				removed = true;
			}
			s1.remove(&victim);
			ops += 1;
		}
	}
	// second history: final content inserted in a generated permutation
	let mut fin: Vec<(u16, String)> = m1.iter().map(|(k, v)| (*k, v.clone())).collect();
	for i in (1..fin.len()).rev() {
		let j = g.below(i + 1);
		fin.swap(i, j);
	}
	let m2: BTreeMap<u16, String> = fin.iter().cloned().collect();
	let s2: BTreeSet<u16> = fin.iter().map(|(k, _)| *k).rev().collect();
	entries.clear();
	let want_m = ref_encode(&<BTreeMap<u16, String>>::ty(), &m2.to_val());
	let want_s = ref_encode(&<BTreeSet<u16>>::ty(), &s2.to_val());
	stats.eval();
	stats.class("map/set histories");
	if removed {
		stats.class("map encode after removal");
		stats.nontrivial(&("map", &want_m));
	}
	stats.sample(|| json!({"structure": "BTreeMap<u16,String>/BTreeSet<u16>", "ops": ops, "final_len": m2.len(), "removal": removed}));
	let (e1, e2) = (m1.encode(), m2.encode());
	if e1 != want_m || e2 != want_m {
		return Err(mismatch("map", "insertion-order", &[format!("{ops} ops")], &e1, &want_m));
	}
	if s1 != s2 {
		panic!("harness: set histories diverged");
	}
	let (f1, f2) = (s1.encode(), s2.encode());
	if f1 != want_s || f2 != want_s {
		return Err(mismatch("set", "insertion-order", &[format!("{ops} ops")], &f1, &want_s));
	}
	// sorted keys on the wire
	Ok(())
}

pub fn list_history(g: &mut Gen, stats: &mut Stats) -> Result<(), Violation> {
	let mut l: LinkedList<u32> = LinkedList::new();
	let mut model: Vec<u32> = vec![];
	let mut trace = vec![];
	for _ in 0..3 + g.below(25) {
		match g.below(6) {
			0 | 1 => {
				let x = g.u32();
				l.push_back(x);
				model.push(x);
				trace.push("push_back".to_string());
			},
			2 => {
				let x = g.u32();
				l.push_front(x);
				model.insert(0, x);
				trace.push("push_front".to_string());
			},
			3 => {
				l.pop_front();
				if !model.is_empty() {
					model.remove(0);
				}
				trace.push("pop_front".to_string());
			},
			4 => {
				let at = g.below(model.len() + 1);
				let mut tail = l.split_off(at);
				let mtail = model.split_off(at);
				// append in the other order
				let mut head = std::mem::take(&mut l);
				tail.append(&mut head);
				l = tail;
				let mut m = mtail;
				m.extend(model.drain(..));
				model = m;
				trace.push(format!("split_off({at})+append"));
			},
			_ => {
				let mut other: LinkedList<u32> = (0..g.below(4) as u32).collect();
				model.extend(other.iter().copied());
				l.append(&mut other);
				trace.push("append".to_string());
			},
		}
		let want = seq_bytes(&model);
		let got = l.encode();
		if got != want {
			return Err(mismatch("list", "history", &trace, &got, &want));
		}
	}
	stats.eval();
	stats.class("linked-list histories");
	if trace.iter().any(|t| t.starts_with("split_off")) {
		stats.nontrivial(&("list", &trace));
	}
	Ok(())
}

pub fn heap_history(g: &mut Gen, stats: &mut Stats) -> Result<(), Violation> {
	use parity_scale_codec::Decode;
	let mut h: BinaryHeap<u16> = BinaryHeap::new();
	for _ in 0..g.below(40) {
		if g.chance(200) {
			h.push(g.u16() % 100);
		} else {
			h.pop();
		}
	}
	let got = h.encode();
	let own_order: Vec<u16> = h.iter().copied().collect();
	let want = seq_bytes(&own_order);
	stats.eval();
	stats.class("heap histories");
	if h.len() >= 3 {
		stats.nontrivial(&("heap", &got));
	}
	if got != want || h.encode() != got {
		return Err(mismatch("heap", "iteration-order", &[], &got, &want));
	}
	let back = BinaryHeap::<u16>::decode(&mut &got[..]).map_err(|e| Violation::new("C06/heap/roundtrip", e.to_string()))?;
	if back.into_sorted_vec() != h.clone().into_sorted_vec() {
		return Err(Violation::new("C06/heap/roundtrip", "heap multiset changed across encode/decode"));
	}
	Ok(())
}

pub fn bits_history<S: BitStore + Encode, O: OrderModel>(g: &mut Gen, stats: &mut Stats) -> Result<(), Violation>
where
	BitVec<S, O>: Modeled,
{
	let total = 1 + g.below(200);
	let mut st = g.stream();
	let bits: Vec<bool> = (0..total).map(|_| st.next() & 1 == 1).collect();
	let bv: BitVec<S, O> = bits.iter().copied().collect();
	let ty = <BitVec<S, O> as Modeled>::ty();
	let name = ty.short_name();
	// every start offset 0..=70 with a generated length
	for a in 0..=70usize.min(total) {
		let b = a + g.below(total - a + 1);
		let window = &bits[a..b];
		let want = ref_encode(&ty, &Val::Bits(window.to_vec()));
		let slice = &bv[a..b];
		let got = guard(|| slice.encode()).map_err(|p| Violation::new("C06/panic/bits", format!("{name} [{a}..{b}]: {p}")))?;
		let fresh: BitVec<S, O> = window.iter().copied().collect();
		stats.class(if a % (std::mem::size_of::<S>() * 8) == 0 { "bits: word-aligned offset" } else { "bits: non-zero bit offset" });
		if got != want {
			return Err(Violation::new(
				format!("C06/bits/offset/{name}"),
				format!("{name}: slice [{a}..{b}] of a {total}-bit vector encodes to {} but its bits encode to {}", hex(&got), hex(&want)),
			));
		}
		if fresh.encode() != got || slice.encode() != got {
			return Err(Violation::new(format!("C06/bits/fresh/{name}"), format!("{name}: slice [{a}..{b}] vs freshly built vector differ")));
		}
	}
	stats.eval();
	stats.class(&format!("bits:{name}"));
	stats.nontrivial(&(name.as_str(), &bits));
	stats.sample(|| json!({"structure": name, "bits": total, "offsets": "0..=70"}));
	Ok(())
}

/// Construction histories of an owned bit vector: the storage words keep stale bits beyond `len`
/// (after pop / truncate / negation / repeat), which must never reach the encoding.
pub fn bitvec_history<S: BitStore + Encode, O: OrderModel>(g: &mut Gen, stats: &mut Stats) -> Result<(), Violation>
where
	BitVec<S, O>: Modeled + Encode,
{
	let ty = <BitVec<S, O> as Modeled>::ty();
	let name = ty.short_name();
	let mut model: Vec<bool> = vec![];
	let mut bv: BitVec<S, O> = match g.below(3) {
		0 => BitVec::new(),
		1 => {
			let n = g.below(70);
			model = vec![true; n];
			BitVec::repeat(true, n)
		},
		_ => BitVec::with_capacity(g.below(200)),
	};
	let mut trace = vec![format!("start(len {})", model.len())];
	let mut shrunk = false;
	for _ in 0..2 + g.below(14) {
		match g.below(12) {
			0 | 1 | 2 => {
				let n = 1 + g.below(20);
				let mut st = g.stream();
				for _ in 0..n {
					let b = st.next() & 1 == 1 || g.chance(128);
					bv.push(b);
					model.push(b);
				}
				trace.push(format!("push x{n}"));
			},
			3 | 4 => {
				let n = 1 + g.below(9);
				for _ in 0..n {
					bv.pop();
					model.pop();
				}
				shrunk = true;
				trace.push(format!("pop x{n}"));
			},
			5 => {
				let n = g.below(model.len() + 1);
				bv.truncate(n);
				model.truncate(n);
				shrunk = true;
				trace.push(format!("truncate({n})"));
			},
			6 => {
				bv = !bv;
				model.iter_mut().for_each(|b| *b = !*b);
				trace.push("negate".into());
			},
			7 if !model.is_empty() => {
				let at = g.below(model.len() + 1);
				let tail = bv.split_off(at);
				let mtail = model.split_off(at);
				if g.bool() {
					// keep the tail instead (its head sits at a non-zero bit offset)
					bv = tail;
					model = mtail;
					trace.push(format!("split_off({at}) keep tail"));
				} else {
					trace.push(format!("split_off({at}) keep head"));
				}
				shrunk = true;
			},
			8 if !model.is_empty() => {
				let i = g.below(model.len());
				let b = g.bool();
				bv.set(i, b);
				model[i] = b;
				trace.push(format!("set({i})"));
			},
			9 => {
				bv.fill(true);
				model.iter_mut().for_each(|b| *b = true);
				trace.push("fill(true)".into());
			},
			10 => {
				bv.shrink_to_fit();
				trace.push("shrink_to_fit".into());
			},
			_ if !model.is_empty() => {
				let i = g.below(model.len());
				bv.remove(i);
				model.remove(i);
				shrunk = true;
				trace.push(format!("remove({i})"));
			},
			_ => {},
		}
		let want = ref_encode(&ty, &Val::Bits(model.clone()));
		let got = guard(|| bv.encode()).map_err(|p| Violation::new("C06/panic/bitvec", format!("{name}: {p}; history {trace:?}")))?;
		let fresh: BitVec<S, O> = model.iter().copied().collect();
		if got != want || fresh.encode() != got || bv.as_bitslice().encode() != got || bv.clone().into_boxed_bitslice().encode() != got {
			return Err(Violation::new(
				format!("C06/bitvec-history/{name}"),
				format!(
					"{name} history {trace:?}: owned vector encodes to {}, its bits encode to {} (fresh copy {}, as slice {}, as boxed slice {})",
					hex(&got),
					hex(&want),
					hex(&fresh.encode()),
					hex(&bv.as_bitslice().encode()),
					hex(&bv.clone().into_boxed_bitslice().encode())
				),
			));
		}
	}
	stats.eval();
	stats.class(&format!("bitvec-history:{name}"));
	if shrunk && model.len() % (std::mem::size_of::<S>() * 8) != 0 {
		stats.class("bitvec encode after shrinking (stale storage bits)");
		stats.nontrivial(&(name.as_str(), &trace));
	}
	stats.sample(|| json!({"structure": name, "history": trace}));
	Ok(())
}

pub fn holder_history<T: Modeled + Encode + Clone + EncodeLike<T>>(g: &mut Gen, stats: &mut Stats) -> Result<(), Violation> {
	let v: T = {
		let mut cfg = GenCfg { budget: 200, ..GenCfg::default() };
		T::from_val(&gen_val(&T::ty(), g, &mut cfg))
	};
	let want = ref_encode(&T::ty(), &v.to_val());
	let plain = v.encode();
	let rc = Rc::new(v.clone());
	let rc2 = Rc::clone(&rc);
	let arc = Arc::new(v.clone());
	let arc2 = arc.clone();
	let mut owned = v.clone();
	let boxed = Box::new(v.clone());
	let cow_b: Cow<'_, T> = Cow::Borrowed(&v);
	let mut cow_o: Cow<'_, T> = Cow::Borrowed(&v);
	let _ = cow_o.to_mut(); // borrow -> own transition
	let r = &v;
	let rr = &r;
	let forms: Vec<(&str, Vec<u8>)> = vec![
		("plain", plain),
		("Box", boxed.encode()),
		("Rc", rc.encode()),
		("Rc::clone", rc2.encode()),
		("Arc", arc.encode()),
		("Arc::clone", arc2.encode()),
		("&T", r.encode()),
		("&&T", rr.encode()),
		("&mut T", (&mut owned).encode()),
		("Cow::Borrowed", cow_b.encode()),
		("Cow::Owned", cow_o.encode()),
		("Ref", Ref::<T, T>::from(&v).encode()),
		("Box<Rc<&T>>", Box::new(Rc::new(&v)).encode()),
		("*Rc (deref clone)", (*rc).clone().encode()),
	];
	stats.eval();
	stats.class(&format!("holders<{}>", T::ty().family()));
	if want.len() >= 2 {
		stats.nontrivial(&("holders", &want));
	}
	for (what, got) in forms {
		if got != want {
			return Err(Violation::new(
				format!("C06/holder/{}", sanitize(what)),
				format!("{what} of a {} encodes to {} but the plain value encodes to {}", T::ty().short_name(), hex(&got), hex(&want)),
			));
		}
	}
	Ok(())
}

/// Sequences *of holders*: a vector, slice, deque or array whose elements are boxed / shared / borrowed /
/// copy-on-write values encodes like the same sequence of plain values, and two equal sequences built
/// separately (different heap addresses) encode identically.
pub fn holder_seq_history<T: Modeled + Encode + Clone + EncodeLike<T> + Default>(g: &mut Gen, stats: &mut Stats) -> Result<(), Violation> {
	let n = match g.below(4) {
		0 => 0,
		1 => 1,
		_ => 2 + g.below(40),
	};
	let items: Vec<T> = (0..n).map(|_| gen_item::<T>(g)).collect();
	let want = seq_bytes(&items);
	let boxes: Vec<Box<T>> = items.iter().cloned().map(Box::new).collect();
	let boxes2: Vec<Box<T>> = items.iter().cloned().map(Box::new).collect();
	let refs: Vec<&T> = items.iter().collect();
	let rcs: Vec<Rc<T>> = items.iter().cloned().map(Rc::new).collect();
	let arcs: Vec<Arc<T>> = items.iter().cloned().map(Arc::new).collect();
	let cows_b: Vec<Cow<'_, T>> = items.iter().map(Cow::Borrowed).collect();
	let cows_o: Vec<Cow<'_, T>> = items.iter().cloned().map(Cow::Owned).collect();
	let wrapped: Vec<Ref<'_, T, T>> = items.iter().map(Ref::from).collect();
	let mut deque: VecDeque<Box<T>> = VecDeque::with_capacity(n + 1);
	for _ in 0..n / 2 + 1 {
		deque.push_back(Box::new(T::default()));
	}
	for _ in 0..n / 2 + 1 {
		deque.pop_front();
	}
	deque.extend(items.iter().cloned().map(Box::new));
	let mut forms: Vec<(&str, Vec<u8>)> = vec![
		("Vec<Box<T>>", boxes.encode()),
		("Vec<Box<T>> rebuilt", boxes2.encode()),
		("&[Box<T>]", boxes[..].encode()),
		("Vec<&T>", refs.encode()),
		("&[&T]", refs[..].encode()),
		("Vec<Rc<T>>", rcs.encode()),
		("Vec<Arc<T>>", arcs.encode()),
		("Vec<Cow::Borrowed>", cows_b.encode()),
		("Vec<Cow::Owned>", cows_o.encode()),
		("Vec<Ref<T,T>>", wrapped.encode()),
		("wrapped VecDeque<Box<T>>", deque.encode()),
		("Box<[Rc<T>]>", rcs.clone().into_boxed_slice().encode()),
	];
	if n >= 3 {
		let arr: [&T; 3] = [&items[0], &items[1], &items[2]];
		let arr_b: [Box<T>; 3] = [boxes[0].clone(), boxes[1].clone(), boxes[2].clone()];
		let mut w = compact_bytes(3);
		w.extend(arr.encode());
		forms.push(("len ++ [&T; 3]", w));
		let mut w = compact_bytes(3);
		w.extend(arr_b.encode());
		forms.push(("len ++ [Box<T>; 3]", w));
	}
	let want3 = if n >= 3 { seq_bytes(&items[..3]) } else { vec![] };
	stats.eval();
	stats.class(&format!("holder-sequences<{}>", T::ty().family()));
	if n >= 2 {
		stats.nontrivial(&("holder-seq", &want));
	}
	for (what, got) in forms {
		let expect = if what.starts_with("len ++") { &want3 } else { &want };
		if &got != expect {
			return Err(Violation::new(
				format!("C06/holder-sequence/{}", sanitize(what)),
				format!(
					"{what} of {n} {} values encodes to {} but the sequence of plain values encodes to {}",
					T::ty().short_name(),
					hex(&got),
					hex(expect)
				),
			));
		}
	}
	Ok(())
}

pub fn tape_checks(_ctx: &Ctx) -> Vec<(&'static str, Box<CheckFn<'_>>)> {
	vec![
		(
			"deque",
			Box::new(|g: &mut Gen, st: &mut Stats| match g.below(22) {
				16 => deque_history::<psc_bridge::derived::Marker>(g, st),
				17 => deque_history::<psc_bridge::derived::MarkerPair>(g, st),
				18 => deque_history::<Box<u32>>(g, st),
				19 => deque_history::<bool>(g, st),
				20 => deque_history::<std::num::NonZeroU16>(g, st),
				21 => deque_history::<[u8; 3]>(g, st),
				0 => deque_history::<u8>(g, st),
				1 => deque_history::<u16>(g, st),
				2 => deque_history::<u32>(g, st),
				3 => deque_history::<u64>(g, st),
				4 => deque_history::<u128>(g, st),
				5 => deque_history::<i8>(g, st),
				6 => deque_history::<i16>(g, st),
				7 => deque_history::<i32>(g, st),
				8 => deque_history::<i64>(g, st),
				9 => deque_history::<i128>(g, st),
				10 => deque_history::<f32>(g, st),
				11 => deque_history::<f64>(g, st),
				12 => deque_history::<String>(g, st),
				13 => deque_history::<Option<u16>>(g, st),
				14 => deque_history::<(u8, u32)>(g, st),
				_ => deque_history::<()>(g, st),
			}),
		),
		(
			"containers",
			Box::new(|g: &mut Gen, st: &mut Stats| match g.below(12) {
				8 => vec_history::<psc_bridge::derived::Marker>(g, st),
				9 => vec_history::<Box<u16>>(g, st),
				10 => vec_history::<()>(g, st),
				11 => vec_history::<bool>(g, st),
				0 => vec_history::<u8>(g, st),
				1 => vec_history::<u32>(g, st),
				2 => vec_history::<String>(g, st),
				3 => string_history(g, st),
				4 | 5 => map_history(g, st),
				6 => list_history(g, st),
				_ => heap_history(g, st),
			}),
		),
		(
			"bits",
			Box::new(|g: &mut Gen, st: &mut Stats| match g.below(16) {
				8 => bitvec_history::<u8, Lsb0>(g, st),
				9 => bitvec_history::<u8, Msb0>(g, st),
				10 => bitvec_history::<u16, Lsb0>(g, st),
				11 => bitvec_history::<u16, Msb0>(g, st),
				12 => bitvec_history::<u32, Lsb0>(g, st),
				13 => bitvec_history::<u32, Msb0>(g, st),
				14 => bitvec_history::<u64, Lsb0>(g, st),
				15 => bitvec_history::<u64, Msb0>(g, st),
				0 => bits_history::<u8, Lsb0>(g, st),
				1 => bits_history::<u8, Msb0>(g, st),
				2 => bits_history::<u16, Lsb0>(g, st),
				3 => bits_history::<u16, Msb0>(g, st),
				4 => bits_history::<u32, Lsb0>(g, st),
				5 => bits_history::<u32, Msb0>(g, st),
				6 => bits_history::<u64, Lsb0>(g, st),
				_ => bits_history::<u64, Msb0>(g, st),
			}),
		),
		(
			"holders",
			Box::new(|g: &mut Gen, st: &mut Stats| match g.below(6) {
				0 => holder_history::<u32>(g, st),
				1 => holder_history::<String>(g, st),
				2 => holder_history::<Vec<u16>>(g, st),
				3 => holder_history::<(u8, Option<String>)>(g, st),
				4 => holder_history::<psc_bridge::derived::Nested>(g, st),
				_ => holder_history::<[u8; 32]>(g, st),
			}),
		),
		(
			"holder-sequences",
			Box::new(|g: &mut Gen, st: &mut Stats| match g.below(8) {
				0 => holder_seq_history::<u8>(g, st),
				1 => holder_seq_history::<u32>(g, st),
				2 => holder_seq_history::<u64>(g, st),
				3 => holder_seq_history::<i16>(g, st),
				4 => holder_seq_history::<f64>(g, st),
				5 => holder_seq_history::<String>(g, st),
				6 => holder_seq_history::<(u8, u16)>(g, st),
				_ => holder_seq_history::<bool>(g, st),
			}),
		),
	]
}

pub fn run(ctx: &Ctx) -> (Level, Report) {
	let mut report = Report::default();
	for (name, check) in tape_checks(ctx) {
		let quick = match name {
			"deque" => 200_000,
			"bits" => 60_000,
			_ => 200_000,
		};
		let out = ctx.random(name, quick, 10, 4096, &*check);
		report.absorb(name, out);
	}
	(
		Level {
			level: "exploration",
			rule: "construction histories interpreted against the structure and a plain model, invariant checked after every step: VecDeque<T> \
(push/pop at both ends, rotate, make_contiguous, reserve, shrink_to_fit, insert, remove, truncate, fill-to-capacity-and-cycle; all 12 primitive \
element types plus String, Option<u16>, (u8,u32), ()); Vec/String capacity histories; BTreeMap/BTreeSet insertion/removal orders and \
permutations of the same final content; LinkedList push/split_off/append; BinaryHeap push/pop (own iteration order + multiset round trip); \
bit sequences: sub-slices at every start offset 0..=70 for all eight store/order pairs against a freshly built vector, and owned-vector histories (push, pop, truncate, negate, split_off keeping either half, set, fill, remove, shrink_to_fit, repeat(true)) that leave stale bits in the storage words; holders: Box, Rc, Arc, \
&, &&, &mut, Cow borrowed/owned, Ref and clone/borrow/own transitions, and sequences (Vec, slice, boxed slice, wrapped deque, array) whose elements are such holders of u8, u32, u64, i16, f64, bool, String or a tuple, built twice at different addresses. Oracle: encoding == reference encoding of the logical content == \
fresh copy's encoding == second encoding. Non-trivial = an encode with the ring wrapped / after a removal / at a non-zero bit offset / with \
spare capacity.",
			assumptions: vec!["reference encoder self-tested on published vectors"],
		},
		report,
	)
}
