//! C02 — decode(encode(v)) == v, consuming exactly the encoding.

use crate::common::*;
use psc_bridge::{input::LogInput, zoo::Entry};
use psc_model::{
	enc::ref_encode,
	gen::Gen,
	runner::{guard, CheckFn},
	serde_json::json,
	stats::*,
	ty::*,
	valgen::*,
};

pub fn codecs(zoo: &[Entry]) -> Vec<&Entry> {
	zoo.iter().filter(|e| e.encode.is_some() && e.decode_slice.is_some()).collect()
}

fn longest_seq(ty: &Ty, v: &Val) -> (u64, usize) {
	// (largest element count met, its element size) for the chunk-boundary histogram
	let mut best = (0u64, 1usize);
	fn walk(ty: &Ty, v: &Val, best: &mut (u64, usize)) {
		match (ty, v) {
			(Ty::Ref(n), _) => walk(&lookup(n), v, best),
			(Ty::Seq { elem, elem_mem, .. }, _) => {
				let n = v.seq_len();
				if n * (*elem_mem as u64).max(1) > best.0 * best.1 as u64 {
					*best = (n, (*elem_mem).max(1));
				}
				if let Val::Seq(items) = v {
					for x in items.iter().take(64) {
						walk(elem, x, best);
					}
				}
			},
			(Ty::Str, Val::Bytes(b)) =>
				if b.len() as u64 > best.0 * best.1 as u64 {
					*best = (b.len() as u64, 1);
				},
			(Ty::Bits { store, .. }, Val::Bits(b)) => {
				let words = b.len() as u64 / u64::from(*store);
				if words * u64::from(*store / 8) > best.0 * best.1 as u64 {
					*best = (words, (*store / 8) as usize);
				}
			},
			(Ty::Option(t), Val::Opt(Some(x))) => walk(t, x, best),
			(Ty::Tuple(ts), Val::Tuple(xs)) => ts.iter().zip(xs).for_each(|(t, x)| walk(t, x, best)),
			(Ty::Holder { inner, .. }, _) => walk(inner, v, best),
			(Ty::Struct { fields, .. }, Val::Tuple(xs)) =>
				fields.iter().zip(xs).filter(|(f, _)| !f.skip).for_each(|(f, x)| walk(&f.ty, x, best)),
			(Ty::Enum { variants, .. }, Val::Variant(i, xs)) =>
				variants[*i].fields.iter().zip(xs).filter(|(f, _)| !f.skip).for_each(|(f, x)| walk(&f.ty, x, best)),
			_ => {},
		}
	}
	walk(ty, v, &mut best);
	best
}

pub fn check_roundtrip(e: &Entry, v: &Val, suffix: &[u8], stats: &mut Stats) -> Result<(), Violation> {
	let enc = e.encode.unwrap();
	let dec = e.decode_slice.unwrap();
	let (bytes, as_model) = match guard(|| enc(v)) {
		Ok(x) => x,
		Err(p) =>
			return Err(Violation::new(
				format!("C02/encode-panic/{}", e.ty.family()),
				format!("type {}: encode panicked: {p}", e.name),
			)),
	};
	// the reference says how long the encoding is, independently of the crate
	let reference_len = ref_encode(&e.ty, &as_model).len();
	let mut input = bytes.clone();
	input.extend_from_slice(suffix);
	let expected = normalize(&e.ty, &after_roundtrip(&e.ty, &as_model));
	stats.eval();
	let (n, sz) = longest_seq(&e.ty, v);
	let window = 16384 / sz as u64;
	let chunk_class = if n == 0 {
		"chunks:none"
	} else if n < window {
		"chunks:<1"
	} else if n <= window + 1 {
		"chunks:boundary-1"
	} else if n <= 2 * window + 1 {
		"chunks:1..2"
	} else {
		"chunks:>2"
	};
	stats.class(chunk_class);
	stats.class(&format!("family:{}", e.ty.family()));
	stats.class(if suffix.is_empty() { "suffix:none" } else { "suffix:some" });
	if n >= window || depth_hi(&e.ty, v) >= 2 || !suffix.is_empty() {
		stats.nontrivial(&(e.name, &input));
	}
	stats.sample(|| json!({"type": e.name, "value": v.brief(100), "encoded_len": bytes.len(), "suffix": hex(suffix), "class": chunk_class}));

	let mut runs: Vec<(&'static str, Result<Val, String>, usize)> = vec![];
	match guard(|| dec(&input)) {
		Ok((r, used)) => runs.push(("slice", r, used)),
		Err(p) =>
			return Err(Violation::new(
				format!("C02/decode-panic/{}", e.ty.family()),
				format!("type {}: decode of its own encoding panicked: {p}\nbytes {}", e.name, hex(&input)),
			)),
	}
	// the same bytes through an input that cannot report its remaining length (other chunking path)
	if let Some(dd) = e.decode_dyn {
		let mut li = LogInput::new(&input, false);
		match guard(|| dd(&mut li)) {
			Ok(r) => runs.push(("unknown-length", r, li.pos)),
			Err(p) =>
				return Err(Violation::new(
					format!("C02/decode-panic/{}", e.ty.family()),
					format!("type {}: decode (unknown-length input) panicked: {p}", e.name),
				)),
		}
	}
	for (kind, r, used) in runs {
		match r {
			Err(err) =>
				return Err(Violation::new(
					format!("C02/reject/{}", e.ty.family()),
					format!(
						"type {} ({kind} input): decoding the encoding of a value failed: {err}\nvalue {}\nbytes {}",
						e.name,
						as_model.brief(300),
						hex(&input)
					),
				)),
			Ok(got) => {
				let got = normalize(&e.ty, &got);
				if !eqv(&got, &expected) {
					return Err(Violation::new(
						format!("C02/value/{}", e.ty.family()),
						format!(
							"type {} ({kind} input): decode(encode(v)) != v\nexpected {}\ngot      {}\nbytes {}",
							e.name,
							expected.brief(400),
							got.brief(400),
							hex(&input)
						),
					));
				}
				if used != bytes.len() || used != reference_len {
					return Err(Violation::new(
						format!("C02/consumed/{}", e.ty.family()),
						format!(
							"type {} ({kind} input): consumed {used} bytes, encoding has {} (reference {reference_len}), suffix {} bytes",
							e.name,
							bytes.len(),
							suffix.len()
						),
					));
				}
			},
		}
	}
	Ok(())
}

pub fn gen_suffix(g: &mut Gen, e: &Entry) -> Vec<u8> {
	match g.below(7) {
		0 | 1 => vec![],
		6 => {
			// long trailing data: total remaining lengths around the powers of 256 and the 16 KiB window, where a
			// guard computed from a truncated or chunked remaining length would misjudge "enough data"
			let base = *g.pick(&[256usize, 512, 4096, 16 * 1024, 65_536]);
			let n = base - 24 + g.below(48);
			let mut b = vec![0u8; n];
			if g.bool() {
				g.stream().fill(&mut b);
			}
			b
		},
		2 => vec![g.u8()],
		3 => {
			let n = g.below(65);
			let mut b = vec![0u8; n];
			g.stream().fill(&mut b);
			b
		},
		4 => {
			// another valid encoding of the same type
			let mut cfg = GenCfg { budget: 100, ..GenCfg::default() };
			let w = gen_val(&e.ty, g, &mut cfg);
			ref_encode(&e.ty, &w)
		},
		_ => vec![*g.pick(&[0u8, 1, 0xff, 0xfc])],
	}
}

pub fn tape_checks(ctx: &Ctx) -> Vec<(&'static str, Box<CheckFn<'_>>)> {
	let entries = codecs(&ctx.zoo);
	vec![(
		"roundtrip",
		Box::new(move |g: &mut Gen, stats: &mut Stats| {
			let e = pick_entry(g, &entries);
			let mut cfg = GenCfg::default();
			let v = gen_val(&e.ty, g, &mut cfg);
			let suffix = gen_suffix(g, e);
			check_roundtrip(e, &v, &suffix, stats)
		}),
	)]
}

pub fn run(ctx: &Ctx) -> (Level, Report) {
	let mut report = Report::default();
	for (name, check) in tape_checks(ctx) {
		let out = ctx.random(name, 300_000, 10, 1024, &*check);
		report.absorb(name, out);
	}
	// deterministic large cases: one chunk past the preallocation window for every primitive width
	for name in ["Vec<u8>", "Vec<u16>", "Vec<u32>", "Vec<u64>", "Vec<u128>", "Vec<f64>", "VecDeque<u32>", "Box<[u8; 100]>", "[u8; 2048]"] {
		let e = ctx.entry(name);
		for seed in 1..=3u8 {
			let tape: Vec<u8> = (0..512).map(|i| (i as u8).wrapping_mul(37).wrapping_add(seed)).collect();
			let mut g = Gen::new(&tape);
			let v = match &e.ty {
				Ty::Seq { elem, elem_mem, .. } => {
					let n = 16384 / elem_mem * usize::from(seed) + usize::from(seed);
					let mut cfg = GenCfg { budget: n, ..GenCfg::default() };
					gen_elems(elem, n, &mut g, &mut cfg)
				},
				t => gen_val(t, &mut g, &mut GenCfg::default()),
			};
			if let Err(viol) = check_roundtrip(e, &v, &[0xAB], &mut report.stats) {
				report.direct(&ctx.known, viol, json!({"kind": "value", "type": name}));
			}
		}
	}
	(
		Level {
			level: "exploration",
			rule: "(zoo type, value, trailing suffix) from tape generators with lengths centred on the 16 KiB preallocation window of \
each element type; decode over a slice and over an unknown-length input. Oracle: value equality (floats by bits, heaps as multisets, skipped \
fields defaulted), consumed == reference encoder's length, suffix untouched. Non-trivial = a sequence of at least one full preallocation \
chunk, or container nesting >= 2, or a non-empty suffix; distinct by (type, input bytes). Skipped enum variants are excluded by construction.",
			assumptions: vec!["reference model self-tested against published vectors"],
		},
		report,
	)
}
