//! libFuzzer integration: the fuzz targets call the same check functions as the random driver
//! (their input is the tape, or for `fz_c03` a type selector followed by raw bytes), and the
//! thorough tier drives fixed-size campaigns (`-runs`, `-seed`, fresh working corpus seeded with
//! generated valid inputs) under AddressSanitizer with debug assertions on.

use crate::{common::*, registry::tape_checks};
use psc_model::{
	gen::{splitmix, Gen},
	runner::{run_tape, CheckFn},
	serde_json::json,
	stats::*,
};
use std::{
	path::PathBuf,
	process::{Command, Stdio},
	sync::OnceLock,
};

/// (fuzz target, property, tape check name)
pub const TARGETS: [(&str, &str, &str); 15] = [
	("fz_c02", "C02", "roundtrip"),
	("fz_c03", "C03", "raw"),
	("fz_c08", "C08", "inputs"),
	("fz_c10", "C10", "random-scripts"),
	("fz_c12", "C12", "bytes"),
	("fz_c14", "C14", "decode_all"),
	("fz_c18", "C18", "skip"),
	("fz_c19", "C19", "slice"),
	("fz_c07", "C07", "bulk-twin"),
	("fz_c01", "C01", "values"),
	("fz_c06", "C06", "holder-sequences"),
	("fz_c11", "C11", "bytes"),
	("fz_c13", "C13", "max-len"),
	("fz_c15", "C15", "histories"),
	("fz_c16", "C16", "rows"),
];

struct Target {
	ctx: &'static Ctx,
	check: Option<Box<CheckFn<'static>>>,
}

fn target(property: &'static str, name: &'static str) -> &'static Target {
	static CELLS: OnceLock<std::sync::Mutex<Vec<(&'static str, &'static str, &'static Target)>>> = OnceLock::new();
	let cells = CELLS.get_or_init(|| std::sync::Mutex::new(vec![]));
	let mut cells = cells.lock().unwrap();
	if let Some((_, _, t)) = cells.iter().find(|(p, n, _)| *p == property && *n == name) {
		return t;
	}
	psc_model::runner::install_quiet_panic_hook();
	let ctx: &'static Ctx = Box::leak(Box::new(Ctx::new(property, Tier::Quick)));
	let check = tape_checks(ctx).into_iter().find(|(n, _)| *n == name).map(|(_, c)| c);
	let t: &'static Target = Box::leak(Box::new(Target { ctx, check }));
	cells.push((property, name, t));
	t
}

/// Body of every fuzz target. A violation aborts the process (libFuzzer saves the input).
pub fn entry(property: &'static str, name: &'static str, data: &[u8]) {
	let t = target(property, name);
	let mut st = Stats { frozen: true, ..Stats::default() };
	let result = if name == "raw" {
		// type selector + raw bytes: coverage feedback works directly on the decoder's input
		if data.len() < 2 {
			return;
		}
		let entries = crate::c03::decodable(&t.ctx.zoo);
		let e = entries[(usize::from(data[0]) | (usize::from(data[1]) << 8)) % entries.len()];
		let bytes = &data[2..];
		if e.is_recursive() && bytes.len() > 256 {
			return;
		}
		// instrumented 10^9-iteration loops look like hangs to the fuzzer: skip giant zero-width counts
		let (_, giant) = psc_model::dec::ref_decode_ex(&e.ty, bytes);
		if giant > 1 << 16 || looks_like_giant_unit_count(&e.ty, bytes) {
			return;
		}
		match std::panic::catch_unwind(std::panic::AssertUnwindSafe(|| crate::c03::check_bytes(e, bytes, "fuzz", &mut st))) {
			Ok(r) => Ok(r),
			Err(_) => Err(psc_model::runner::take_panic_message()),
		}
	} else {
		let Some(check) = &t.check else { return };
		run_tape(&**check, data, &mut st)
	};
	match result {
		Ok(Ok(())) => {},
		Ok(Err(v)) => {
			eprintln!("VIOLATION-IN-FUZZ-TARGET property={property} signature={}\n{}", v.sig, v.detail);
			std::process::abort();
		},
		Err(p) => {
			// oracle/harness bug: do not report as a finding of the fuzzer
			eprintln!("HARNESS-PANIC-IN-FUZZ-TARGET {p}");
		},
	}
}

fn looks_like_giant_unit_count(ty: &psc_model::ty::Ty, bytes: &[u8]) -> bool {
	use psc_model::ty::Ty;
	match ty {
		Ty::Seq { elem, .. } if elem.zero_width() =>
			psc_model::dec::dec_compact(bytes, 32).map_or(false, |(n, _)| n > 1 << 20),
		_ => false,
	}
}

/// Seed corpus: generated inputs of the target's own shape, a pure function of the seed.
pub fn write_corpus(target_name: &str, dir: &std::path::Path, seed: u64, n: usize) {
	let _ = std::fs::create_dir_all(dir);
	let Some((_, property, name)) = TARGETS.iter().find(|t| t.0 == target_name) else { return };
	if *name == "raw" {
		let ctx = Ctx::new("C03", Tier::Quick);
		let entries = crate::c03::decodable(&ctx.zoo);
		for i in 0..n {
			let mut tape = vec![0u8; 256];
			splitmix(seed ^ (i as u64) << 8).fill(&mut tape);
			let mut g = Gen::new(&tape);
			let k = i % entries.len();
			let e = entries[k];
			let (bytes, _) = psc_model::mutate::gen_input(&e.ty, &mut g, 64);
			if bytes.len() > 2048 {
				continue;
			}
			let mut f = vec![(k & 0xff) as u8, (k >> 8) as u8];
			f.extend(bytes);
			let _ = std::fs::write(dir.join(format!("seed{i:05}")), f);
		}
	} else {
		let _ = property;
		for i in 0..n {
			let mut tape = vec![0u8; 192];
			splitmix(seed ^ 0xF022 ^ (i as u64) << 8).fill(&mut tape);
			if i % 4 == 0 {
				tape.iter_mut().skip(2).step_by(2).for_each(|b| *b = 0);
			}
			let _ = std::fs::write(dir.join(format!("seed{i:05}")), tape);
		}
	}
}

pub struct FuzzOut {
	pub execs: u64,
	pub cov: u64,
	pub crash: Option<PathBuf>,
	pub note: String,
}

fn fuzz_dir() -> PathBuf {
	verif_root().join("fuzz")
}

pub fn build_targets() -> Result<(), String> {
	let _ = std::fs::copy(verif_root().join("Cargo.lock"), fuzz_dir().join("Cargo.lock"));
	let out = Command::new("cargo")
		.args(["+nightly", "fuzz", "build"])
		.current_dir(verif_root())
		.env("CARGO_NET_OFFLINE", "true")
		.stdout(Stdio::piped())
		.stderr(Stdio::piped())
		.output()
		.map_err(|e| format!("cannot run cargo fuzz: {e}"))?;
	if out.status.success() {
		Ok(())
	} else {
		Err(String::from_utf8_lossy(&out.stderr).lines().filter(|l| l.starts_with("error")).take(4).collect::<Vec<_>>().join(" | "))
	}
}

/// One fixed-size campaign of `target_name`, split over `jobs` processes with distinct seeds.
pub fn campaign(ctx: &Ctx, target_name: &str, total_runs: u64, jobs: usize) -> FuzzOut {
	let exe = verif_root().join("target/x86_64-unknown-linux-gnu/release").join(target_name);
	let mut out = FuzzOut { execs: 0, cov: 0, crash: None, note: String::new() };
	if !exe.exists() {
		out.note = format!("fuzz target {} not built", exe.display());
		return out;
	}
	let results = psc_model::runner::parallel_map(jobs, jobs, |j| {
		let work = fuzz_dir().join("work-corpus").join(format!("{target_name}-{j}"));
		let _ = std::fs::remove_dir_all(&work);
		write_corpus(target_name, &work, ctx.seed ^ (j as u64) << 32, 150);
		let art = fuzz_dir().join("artifacts").join(target_name);
		let _ = std::fs::create_dir_all(&art);
		let o = Command::new(&exe)
			.arg(&work)
			.arg(format!("-runs={}", total_runs / jobs as u64))
			.arg(format!("-seed={}", (ctx.seed as u32).wrapping_mul(31).wrapping_add(j as u32 + 1)))
			// the campaign is sized in executions; the wall-clock bound only keeps a slow target (ASan + coverage
			// instrumentation on the deep checks runs at ~150/s) from dominating the tier: what was executed is reported
			.args(["-max_total_time=600", "-len_control=0", "-max_len=2048", "-timeout=60", "-rss_limit_mb=8192", "-malloc_limit_mb=3072", "-print_final_stats=1"])
			.arg(format!("-artifact_prefix={}/", art.display()))
			.env("ASAN_OPTIONS", "detect_leaks=0:abort_on_error=1")
			.stdout(Stdio::piped())
			.stderr(Stdio::piped())
			.output();
		let _ = std::fs::remove_dir_all(&work);
		o
	});
	for r in results {
		match r {
			Ok(o) => {
				let err = String::from_utf8_lossy(&o.stderr);
				for l in err.lines() {
					if let Some(n) = l.strip_prefix("stat::number_of_executed_units:") {
						out.execs += n.trim().parse::<u64>().unwrap_or(0);
					}
					if l.contains(" cov: ") {
						if let Some(c) = l.split(" cov: ").nth(1).and_then(|x| x.split_whitespace().next()).and_then(|x| x.parse::<u64>().ok()) {
							out.cov = out.cov.max(c);
						}
					}
					if l.contains("Test unit written to") {
						if let Some(p) = l.split("Test unit written to ").nth(1) {
							let p = PathBuf::from(p.trim());
							let is_violation = err.contains("VIOLATION-IN-FUZZ-TARGET") || err.contains("AddressSanitizer") || err.contains("panicked");
							if is_violation && !p.to_string_lossy().contains("timeout-") && !p.to_string_lossy().contains("oom-") {
								out.crash.get_or_insert(p);
								let detail: Vec<&str> = err.lines().filter(|l| l.contains("VIOLATION-IN-FUZZ") || l.contains("ERROR: AddressSanitizer") || l.contains("panicked at")).take(3).collect();
								out.note = detail.join(" | ");
							} else if out.note.is_empty() {
								out.note = format!("inconclusive fuzzer stop (timeout/oom): {}", p.display());
							}
						}
					}
				}
			},
			Err(e) => out.note = format!("cannot run fuzz target: {e}"),
		}
	}
	out
}

/// Thorough-tier hook: build the targets once, run the campaigns of `property`, fold into the report.
pub fn run_for_property(ctx: &Ctx, report: &mut Report, runs: u64) {
	if ctx.tier != Tier::Thorough {
		return;
	}
	let mine: Vec<_> = TARGETS.iter().filter(|t| t.1 == ctx.property).collect();
	if mine.is_empty() {
		return;
	}
	if let Err(e) = build_targets() {
		eprintln!("note: fuzz targets do not build ({e}); libFuzzer campaigns skipped");
		report.stats.extra.insert("libfuzzer".into(), json!(format!("skipped: targets do not build: {e}")));
		return;
	}
	for (target_name, _, _) in mine {
		let out = campaign(ctx, target_name, runs, 6);
		report.stats.evaluations += out.execs;
		report.stats.class_n(&format!("libfuzzer:{target_name}:executions"), out.execs);
		report.stats.extra.insert(format!("libfuzzer_{target_name}"), json!({"executions": out.execs, "coverage_edges": out.cov, "note": out.note}));
		if let Some(p) = out.crash {
			// keep the reproducer under replays/
			let dst = verif_root().join("replays").join(ctx.property);
			let _ = std::fs::create_dir_all(&dst);
			let name = dst.join(format!("fuzz-{target_name}-{}", p.file_name().map(|f| f.to_string_lossy().to_string()).unwrap_or_default()));
			let _ = std::fs::copy(&p, &name);
			report.violations.push((
				format!("{}/fuzz/{target_name}", ctx.property),
				json!({"kind": "fuzz-input", "target": target_name, "file": name.display().to_string(), "signature": format!("{}/fuzz/{target_name}", ctx.property), "detail": out.note}),
			));
		} else if out.note.starts_with("inconclusive") || out.note.starts_with("cannot") || out.note.contains("not built") {
			// a fuzzer that stops on its own memory/time limit says nothing about the property: the note is kept in
			// the evidence, the verdict stays with the deterministic drivers (never a violation, never a failed check)
			eprintln!("note: {target_name}: {}", out.note);
		}
	}
}

/// Replay of a saved fuzz input through the same entry function (no fuzzer involved).
pub fn replay_input(doc: &psc_model::serde_json::Value) -> Option<Result<(), Violation>> {
	if doc["kind"] != "fuzz-input" {
		return None;
	}
	let target_name = doc["target"].as_str()?;
	let (_, property, name) = TARGETS.iter().find(|t| t.0 == target_name)?;
	let data = std::fs::read(doc["file"].as_str()?).ok()?;
	let exe = verif_root().join("target/x86_64-unknown-linux-gnu/release").join(target_name);
	if exe.exists() {
		let o = Command::new(&exe).arg(doc["file"].as_str()?).output().ok()?;
		return Some(if o.status.success() {
			Ok(())
		} else {
			let err = String::from_utf8_lossy(&o.stderr);
			Err(Violation::new(
				doc["signature"].as_str().unwrap_or("fuzz").to_string(),
				err.lines().filter(|l| l.contains("VIOLATION") || l.contains("ERROR") || l.contains("panicked")).take(6).collect::<Vec<_>>().join("\n"),
			))
		});
	}
	// no sanitizer build at hand: run the entry function in-process in a child-free way is unsafe (it aborts); report
	let _ = (property, name, data);
	None
}
