//! C03 — decoder accepts exactly the SCALE language and is total on any bytes.

use crate::common::*;
use psc_bridge::zoo::Entry;
use psc_model::{
	dec::*,
	gen::Gen,
	mutate::gen_input,
	runner::{guard, parallel_map, CheckFn},
	serde_json::json,
	stats::*,
	ty::*,
};

pub fn decodable(zoo: &[Entry]) -> Vec<&Entry> {
	zoo.iter().filter(|e| e.decode_slice.is_some()).collect()
}

/// Counts above this for zero-width elements other than `Vec<()>`-likes are skipped (domain
/// decision: the value legitimately has that many elements; see DESIGN §9).
pub const GIANT_ZW_CAP: u64 = 1 << 16;

pub fn check_bytes(e: &Entry, bytes: &[u8], family: &str, stats: &mut Stats) -> Result<(), Violation> {
	let (reference, giant) = ref_decode_ex(&e.ty, bytes);
	if giant > GIANT_ZW_CAP {
		stats.exclude("zero-width-elements-giant-count");
		return Ok(());
	}
	let dec = e.decode_slice.unwrap();
	stats.eval();
	let real = match guard(|| dec(bytes)) {
		Ok(x) => x,
		Err(p) =>
			return Err(Violation::new(
				format!("C03/panic/{}", e.ty.family()),
				format!("type {}: decode panicked: {p}\nbytes {}", e.name, hex(bytes)),
			)),
	};
	let outcome_class = match &reference {
		Ok(_) => "accepted".to_string(),
		Err(r) => format!("rejected:{}", r.label()),
	};
	stats.class(&format!("outcome:{outcome_class}"));
	stats.class(&format!("input:{family}"));
	if let Err(r) = &reference {
		stats.class(&format!("rule:{}:{}", r.label(), e.ty.family()));
	}
	let trivial = family == "valid" || bytes.is_empty();
	if !trivial {
		stats.nontrivial(&(e.name, bytes));
	}
	stats.sample(|| json!({"type": e.name, "bytes": hex(bytes), "family": family, "reference": outcome_class}));
	// the shared-buffer entry point must be just as total and exact (its zero-copy cursor has its own bounds logic)
	if let Some(db) = e.decode_bytes {
		let via = match guard(|| db(bytes)) {
			Ok(x) => x,
			Err(p) =>
				return Err(Violation::new(
					format!("C03/panic/decode_from_bytes/{}", e.ty.family()),
					format!("type {}: decode_from_bytes panicked: {p}\nbytes {}", e.name, hex(bytes)),
				)),
		};
		let agrees = match (&reference, &via.0) {
			(Err(_), Err(_)) => true,
			(Ok((rv, _)), Ok(gv)) => eqv(&normalize(&e.ty, rv), &normalize(&e.ty, gv)),
			_ => false,
		};
		if !agrees {
			return Err(Violation::new(
				format!("C03/decode_from_bytes/{}", e.ty.family()),
				format!(
					"type {}: decode_from_bytes {} where the reference decoder {}\nbytes {}",
					e.name,
					if via.0.is_ok() { "accepts" } else { "rejects" },
					if reference.is_ok() { "accepts (or yields another value)" } else { "rejects" },
					hex(bytes)
				),
			));
		}
	}
	match (&reference, &real.0) {
		(Err(_), Err(_)) => Ok(()),
		(Ok((rv, rused)), Ok(gv)) => {
			let a = normalize(&e.ty, rv);
			let b = normalize(&e.ty, gv);
			if !eqv(&a, &b) {
				return Err(Violation::new(
					format!("C03/value/{}", e.ty.family()),
					format!(
						"type {}: decoded value differs from the reference decoder\nbytes {}\nreference {}\ncrate     {}",
						e.name,
						hex(bytes),
						a.brief(300),
						b.brief(300)
					),
				));
			}
			if *rused != real.1 {
				return Err(Violation::new(
					format!("C03/consumed/{}", e.ty.family()),
					format!("type {}: consumed {} bytes, reference {rused}\nbytes {}", e.name, real.1, hex(bytes)),
				));
			}
			Ok(())
		},
		(Err(r), Ok(gv)) => Err(Violation::new(
			format!("C03/accepts-invalid/{}/{}", r.label(), e.ty.family()),
			format!(
				"type {}: crate accepts input the specification rejects ({})\nbytes {}\ncrate value {}",
				e.name,
				r.label(),
				hex(bytes),
				gv.brief(300)
			),
		)),
		(Ok((rv, _)), Err(err)) => Err(Violation::new(
			format!("C03/rejects-valid/{}", e.ty.family()),
			format!(
				"type {}: crate rejects input the specification accepts: {err}\nbytes {}\nreference value {}",
				e.name,
				hex(bytes),
				rv.brief(300)
			),
		)),
	}
}

pub fn tape_checks(ctx: &Ctx) -> Vec<(&'static str, Box<CheckFn<'_>>)> {
	let entries = decodable(&ctx.zoo);
	vec![(
		"bytes",
		Box::new(move |g: &mut Gen, stats: &mut Stats| {
			let e = pick_entry(g, &entries);
			let (mut bytes, family) = gen_input(&e.ty, g, 256);
			if e.is_recursive() && bytes.len() > 256 {
				// plain decode recurses once per nesting level of the input; deep inputs belong to C11
				bytes.truncate(256);
				stats.exclude("recursive-type-input-truncated-to-256");
			}
			check_bytes(e, &bytes, family, stats)
		}),
	)]
}

fn small_alphabet(ty: &Ty) -> bool {
	match ty {
		Ty::Bool | Ty::OptionBool | Ty::Compact(_) | Ty::Enum { .. } | Ty::NzU(8) | Ty::NzI(8) | Ty::NzU(16) => true,
		Ty::Option(t) => small_alphabet(t) || matches!(**t, Ty::U(8) | Ty::Unit),
		Ty::Result(a, b) => (small_alphabet(a) || matches!(**a, Ty::U(8) | Ty::Unit)) && (small_alphabet(b) || matches!(**b, Ty::U(8) | Ty::Unit)),
		// (zero-width elements are left out: every 3-byte count up to 16383 would be honoured element by element)
		Ty::Seq { elem, .. } => small_alphabet(elem) && !elem.zero_width(),
		Ty::Str => true,
		Ty::Bits { .. } => true,
		Ty::Struct { fields, .. } => fields.iter().any(|f| !f.skip) && fields.iter().filter(|f| !f.skip).all(|f| small_alphabet(&f.ty)),
		Ty::Tuple(ts) => !ts.is_empty() && ts.iter().all(small_alphabet),
		_ => false,
	}
}

fn exhaustive(ctx: &Ctx, report: &mut Report) {
	let entries = decodable(&ctx.zoo);
	// all strings of length 0..=2 for every type; length 3 for small-alphabet types (thorough)
	let mut jobs: Vec<(&Entry, usize)> = vec![];
	for e in &entries {
		for len in 0..=2usize {
			jobs.push((e, len));
		}
		if ctx.tier == Tier::Thorough && small_alphabet(&e.ty) {
			jobs.push((e, 3));
		}
	}
	let results = parallel_map(jobs.len(), ctx.threads, |i| {
		let (e, len) = jobs[i];
		let mut st = Stats::default();
		let mut first: Option<(Violation, Vec<u8>)> = None;
		let total: u64 = 1u64 << (8 * len);
		let mut buf = vec![0u8; len];
		for x in 0..total {
			for (k, b) in buf.iter_mut().enumerate() {
				*b = (x >> (8 * k)) as u8;
			}
			// cheap path: no sampling/fingerprints for the bulk of the enumeration
			let (reference, giant) = ref_decode_ex(&e.ty, &buf);
			if giant > GIANT_ZW_CAP {
				continue;
			}
			let real = guard(|| (e.decode_slice.unwrap())(&buf));
			let agree = match (&reference, &real) {
				(_, Err(_)) => false,
				(Err(_), Ok((Err(_), _))) => true,
				(Ok((rv, ru)), Ok((Ok(gv), gu))) => ru == gu && eqv(&normalize(&e.ty, rv), &normalize(&e.ty, gv)),
				_ => false,
			};
			st.evaluations += 1;
			if !agree && first.is_none() {
				let mut scratch = Stats { frozen: true, ..Stats::default() };
				if let Err(v) = check_bytes(e, &buf, "exhaustive", &mut scratch) {
					first = Some((v, buf.clone()));
				}
			}
		}
		st.class_n(&format!("exhaustive:len{len}"), total);
		if len >= 1 {
			st.nontrivial.insert(fingerprint(&(e.name, len, "exhaustive-domain")));
		}
		(st, first)
	});
	for (i, (st, first)) in results.into_iter().enumerate() {
		report.stats.merge(st);
		if let Some((v, bytes)) = first {
			report.direct(&ctx.known, v, json!({"kind": "bytes", "type": jobs[i].0.name, "bytes": hex_full(&bytes)}));
		}
	}
	report.stats.extra.insert(
		"exhaustive_domains".into(),
		json!(format!(
			"all byte strings of length 0..=2 for each of {} decodable zoo types{}",
			entries.len(),
			if ctx.tier == Tier::Thorough { "; length 3 for small-alphabet types" } else { "" }
		)),
	);
}

pub fn replay_direct(ctx: &Ctx, doc: &psc_model::serde_json::Value) -> Option<Result<(), Violation>> {
	if doc["kind"] != "bytes" {
		return None;
	}
	let e = ctx.entry(doc["type"].as_str()?);
	let bytes = unhex(doc["bytes"].as_str()?);
	let mut st = Stats::default();
	Some(check_bytes(e, &bytes, "replay", &mut st))
}

/// The bit-length cap can only be told apart from "not enough data" with 64 MiB of payload.
fn bit_cap_cases(ctx: &Ctx, report: &mut Report) {
	let names: Vec<&str> = if ctx.tier == Tier::Thorough {
		ctx.zoo.iter().filter(|e| e.decode_slice.is_some() && matches!(e.ty, Ty::Bits { .. })).map(|e| e.name).collect()
	} else {
		vec!["BitVec<u8, Lsb0>", "BitVec<u64, Msb0>"]
	};
	for name in names {
	let e = ctx.entry(name);
	let word = match e.ty { Ty::Bits { store, .. } => store as usize, _ => 8 };
	let dec = e.decode_slice.unwrap();
	for (bits, expect_ok) in [((1u64 << 29) - 1, true), (1 << 29, false), ((1 << 29) + 8, false)] {
		let mut input = psc_model::enc::compact_bytes(u128::from(bits));
		let head = input.len();
		let payload = (bits as usize + word - 1) / word * (word / 8);
		input.resize(head + payload + 4, 0);
		let r = guard(|| {
			let (r, used) = dec(&input);
			(r.is_ok(), used)
		});
		report.stats.eval();
		report.stats.class("bit-count around 2^29 with a full 64 MiB payload");
		report.stats.nontrivial(&("bitcap", bits));
		let ok = match r {
			Ok((ok, used)) => ok == expect_ok && (!ok || used == head + payload),
			Err(_) => false,
		};
		if !ok {
			report.direct(
				&ctx.known,
				Violation::new(
					"C03/bit-length-cap",
					format!("{name} with a claimed length of {bits} bits and a full payload: expected {}, got {r:?}", if expect_ok { "acceptance" } else { "rejection (more than 2^29-1 bits)" }),
				),
				json!({"kind": "none"}),
			);
		}
	}
	}
}

pub fn run(ctx: &Ctx) -> (Level, Report) {
	let mut report = Report::default();
	for (name, check) in tape_checks(ctx) {
		let out = ctx.random(name, 200_000, 20, 1024, &*check);
		report.absorb(name, out);
	}
	exhaustive(ctx, &mut report);
	bit_cap_cases(ctx, &mut report);
	(
		Level {
			level: "exploration",
			rule: "byte strings per decodable zoo type: exhaustive short strings; mutations of valid encodings (bit flips, boundary bytes, \
truncation, extension, splices, count tampering via the reference encoder's count map); grammar-aware near-valid strings (one injected fault: \
bad tag, unknown variant byte, zero NonZero, nanos around 1e9, non-minimal/over-wide compact, ill-formed UTF-8, bit count around 2^29); random \
strings. Oracle: independent reference decoder <=> crate (accept/reject, value, consumed); panics are violations. Non-trivial = not an \
unmodified valid encoding and not empty; distinct by (type, bytes). The enumerated short-string domains count one non-trivial unit per (type, length).",
			assumptions: vec![
				"reference model self-tested against published vectors",
				"recursive types receive at most 256 input bytes here (deep inputs are decided under C11)",
				"claimed counts above 2^16 of zero-width elements other than Vec<()>-likes are skipped (counted in excluded)",
			],
		},
		report,
	)
}
