//! C04 — compact integers: canonical, minimal, width-compatible bijection.
//!
//! Oracle: pure arithmetic written here (no allocation, so that 10^9-scale enumerations are
//! cheap), cross-checked against the model crate's own `compact_bytes` / `dec_compact`.

use crate::common::*;
use parity_scale_codec::{Compact, CompactLen, Decode, Encode};
use psc_model::{
	dec::dec_compact,
	enc::compact_bytes,
	gen::{splitmix, Stream},
	runner::{guard, parallel_map},
	serde_json::json,
	stats::*,
};
use std::sync::atomic::{AtomicU64, Ordering};

pub const WIDTHS: [u32; 5] = [8, 16, 32, 64, 128];

/// Reference encoder into a fixed buffer; returns the length.
#[inline]
fn ref_enc(x: u128, out: &mut [u8; 17]) -> usize {
	if x < 1 << 6 {
		out[0] = (x as u8) << 2;
		1
	} else if x < 1 << 14 {
		out[..2].copy_from_slice(&(((x as u16) << 2) | 1).to_le_bytes());
		2
	} else if x < 1 << 30 {
		out[..4].copy_from_slice(&(((x as u32) << 2) | 2).to_le_bytes());
		4
	} else {
		let n = ((128 - x.leading_zeros() as usize) + 7) / 8;
		let n = n.max(4);
		out[0] = 0b11 | (((n - 4) as u8) << 2);
		out[1..1 + n].copy_from_slice(&x.to_le_bytes()[..n]);
		1 + n
	}
}

/// Reference decoder: parse the mode; accept iff the parsed value fits `bits` and its canonical
/// form is exactly the bytes consumed.
#[inline]
fn ref_dec(bits: u32, s: &[u8]) -> Option<(u128, usize)> {
	let first = *s.first()?;
	let (value, used) = match first & 3 {
		0 => (u128::from(first >> 2), 1usize),
		1 => {
			if s.len() < 2 {
				return None;
			}
			(u128::from(u16::from_le_bytes([s[0], s[1]]) >> 2), 2)
		},
		2 => {
			if s.len() < 4 {
				return None;
			}
			(u128::from(u32::from_le_bytes([s[0], s[1], s[2], s[3]]) >> 2), 4)
		},
		_ => {
			let n = usize::from(first >> 2) + 4;
			if n > 16 || s.len() < 1 + n {
				return None;
			}
			let mut raw = [0u8; 16];
			raw[..n].copy_from_slice(&s[1..1 + n]);
			(u128::from_le_bytes(raw), 1 + n)
		},
	};
	if bits < 128 && value >> bits != 0 {
		return None;
	}
	let mut buf = [0u8; 17];
	if ref_enc(value, &mut buf) != used {
		return None;
	}
	Some((value, used))
}

pub struct RealEnc {
	pub encode: Vec<u8>,
	pub compact_len: usize,
	pub using_encoded: Vec<u8>,
	pub encode_to: Vec<u8>,
	pub encoded_size: usize,
	pub size_hint: usize,
}

macro_rules! per_width {
	($($enc:ident, $dec:ident, $fast:ident, $t:ty);*) => {$(
		fn $enc(x: u128) -> RealEnc {
			let v = x as $t;
			let c = Compact(v);
			let mut to = Vec::new();
			c.encode_to(&mut to);
			RealEnc {
				encode: c.encode(),
				compact_len: <Compact<$t> as CompactLen<$t>>::compact_len(&v),
				using_encoded: c.using_encoded(|b| b.to_vec()),
				encode_to: to,
				encoded_size: c.encoded_size(),
				size_hint: c.size_hint(),
			}
		}
		#[inline]
		fn $dec(s: &[u8]) -> Option<(u128, usize)> {
			let mut input = s;
			match <Compact<$t>>::decode(&mut input) {
				Ok(c) => Some((c.0 as u128, s.len() - input.len())),
				Err(_) => None,
			}
		}
		/// fast path for bulk enumeration: encode through `using_encoded` only, compare in place
		#[inline]
		fn $fast(x: u128, expect: &[u8]) -> bool {
			let v = x as $t;
			Compact(v).using_encoded(|b| b == expect) && <Compact<$t> as CompactLen<$t>>::compact_len(&v) == expect.len()
		}
	)*}
}
per_width!(enc8, dec8, fast8, u8; enc16, dec16, fast16, u16; enc32, dec32, fast32, u32; enc64, dec64, fast64, u64; enc128, dec128, fast128, u128);

fn real_enc(bits: u32, x: u128) -> RealEnc {
	match bits {
		8 => enc8(x),
		16 => enc16(x),
		32 => enc32(x),
		64 => enc64(x),
		_ => enc128(x),
	}
}
#[inline]
fn real_dec(bits: u32, s: &[u8]) -> Option<(u128, usize)> {
	match bits {
		8 => dec8(s),
		16 => dec16(s),
		32 => dec32(s),
		64 => dec64(s),
		_ => dec128(s),
	}
}
#[inline]
fn real_fast(bits: u32, x: u128, expect: &[u8]) -> bool {
	match bits {
		8 => fast8(x, expect),
		16 => fast16(x, expect),
		32 => fast32(x, expect),
		64 => fast64(x, expect),
		_ => fast128(x, expect),
	}
}

fn max_of(bits: u32) -> u128 {
	if bits == 128 {
		u128::MAX
	} else {
		(1u128 << bits) - 1
	}
}

/// Full relation set for one (width, value). Slow path (allocates), used on every boundary value
/// and on a sample of the bulk values.
pub fn check_value_full(bits: u32, x: u128) -> Result<(), Violation> {
	let mut buf = [0u8; 17];
	let n = ref_enc(x, &mut buf);
	let expect = &buf[..n];
	// oracle consistency (model crate vs the arithmetic here): a mismatch is an oracle bug
	assert_eq!(compact_bytes(x), expect, "model: two reference encoders disagree on {x}");
	let r = guard(|| real_enc(bits, x)).map_err(|p| {
		Violation::new(format!("C04/panic/encode/u{bits}"), format!("Compact<u{bits}>({x}) encode panicked: {p}"))
	})?;
	let v = |what: &str, got: String| {
		Violation::new(
			format!("C04/{what}/u{bits}"),
			format!("Compact<u{bits}>({x}): {what}: got {got}, canonical form is {}", hex(expect)),
		)
	};
	if r.encode != expect {
		return Err(v("encode", hex(&r.encode)));
	}
	if r.using_encoded != expect {
		return Err(v("using_encoded", hex(&r.using_encoded)));
	}
	if r.encode_to != expect {
		return Err(v("encode_to", hex(&r.encode_to)));
	}
	if r.compact_len != n {
		return Err(v("compact_len", r.compact_len.to_string()));
	}
	if r.encoded_size != n {
		return Err(v("encoded_size", r.encoded_size.to_string()));
	}
	if r.size_hint != n {
		return Err(v("size_hint", r.size_hint.to_string()));
	}
	// decode with a suffix, in this and every other width
	let mut with_suffix = expect.to_vec();
	with_suffix.extend_from_slice(&[0xff, 0x00, 0x03]);
	for w in WIDTHS {
		let got = guard(|| real_dec(w, &with_suffix)).map_err(|p| {
			Violation::new(format!("C04/panic/decode/u{w}"), format!("Compact<u{w}> decode of {} panicked: {p}", hex(&with_suffix)))
		})?;
		let want = if x <= max_of(w) { Some((x, n)) } else { None };
		if got != want {
			return Err(Violation::new(
				format!("C04/width-compat/u{w}"),
				format!(
					"value {x} (canonical {}) decoded as Compact<u{w}>: got {:?}, expected {:?}",
					hex(expect),
					got,
					want
				),
			));
		}
		// every strict prefix must be rejected
		for cut in 0..n {
			if let Some(g) = real_dec(w, &expect[..cut]) {
				return Err(Violation::new(
					format!("C04/prefix-accepted/u{w}"),
					format!("strict prefix {} of the canonical form of {x} accepted as {:?}", hex(&expect[..cut]), g),
				));
			}
		}
	}
	// what follows the canonical form — and how much of it — never matters: same result for trailing lengths
	// around every power of 256 a length-derived guard could truncate at
	if x <= max_of(bits) {
		let mut long = vec![0xA5u8; n + 65_552];
		long[..n].copy_from_slice(expect);
		for extra in (0..=20usize).chain(236..=276).chain(492..=532).chain(65_516..=65_552) {
			let s = &long[..n + extra];
			let got = guard(|| real_dec(bits, s)).map_err(|p| {
				Violation::new(format!("C04/panic/decode/u{bits}"), format!("Compact<u{bits}> decode of {} + {extra} trailing bytes panicked: {p}", hex(expect)))
			})?;
			if got != Some((x, n)) {
				return Err(Violation::new(
					format!("C04/trailing-length/u{bits}"),
					format!(
						"value {x} (canonical {}) followed by {extra} trailing bytes decoded as Compact<u{bits}>: got {:?}, expected {:?}",
						hex(expect),
						got,
						Some((x, n))
					),
				));
			}
		}
	}
	Ok(())
}

/// Decoder relation for one (width, string).
#[inline]
pub fn check_string(bits: u32, s: &[u8]) -> Result<(), Violation> {
	let want = ref_dec(bits, s);
	let got = real_dec(bits, s);
	if want != got {
		// oracle consistency before blaming the crate
		let model = dec_compact(s, bits).ok();
		assert_eq!(model, want, "model: two reference decoders disagree on {}", hex(s));
		return Err(Violation::new(
			format!("C04/decode/u{bits}"),
			format!("Compact<u{bits}> decode of {}: crate {:?}, reference {:?}", hex(s), got, want),
		));
	}
	Ok(())
}

fn string_guarded(bits: u32, s: &[u8]) -> Result<(), Violation> {
	match guard(|| check_string(bits, s)) {
		Ok(r) => r,
		Err(p) => Err(Violation::new(
			format!("C04/panic/decode/u{bits}"),
			format!("Compact<u{bits}> decode of {} panicked: {p}", hex(s)),
		)),
	}
}

struct Bitmap(Vec<AtomicU64>);
impl Bitmap {
	fn new(bits_log2: u32) -> Self {
		Bitmap((0..(1usize << (bits_log2 - 6))).map(|_| AtomicU64::new(0)).collect())
	}
	#[inline]
	fn set(&self, h: u64) {
		let n = self.0.len() as u64 * 64;
		let i = h % n;
		self.0[(i / 64) as usize].fetch_or(1 << (i % 64), Ordering::Relaxed);
	}
	fn count(&self) -> u64 {
		self.0.iter().map(|w| u64::from(w.load(Ordering::Relaxed).count_ones())).sum()
	}
}

fn boundary_values(bits: u32) -> Vec<u128> {
	let mut v = vec![];
	let mut bounds: Vec<u128> = vec![0, 1 << 6];
	for b in [14u32, 30, 32, 40, 48, 56, 64, 72, 80, 88, 96, 104, 112, 120] {
		if b <= bits {
			bounds.push(if b == 128 { 0 } else { 1u128 << b });
		}
	}
	bounds.push(max_of(bits));
	for b in bounds {
		for d in 0..=4096u128 {
			v.push(b.wrapping_add(d) & max_of(bits));
			v.push(b.wrapping_sub(d) & max_of(bits));
		}
	}
	v
}

fn two_lane_values(bits: u32, mut f: impl FnMut(u128)) {
	let lanes = bits / 8;
	for l1 in 0..lanes {
		for a in 1..=255u128 {
			f(a << (8 * l1));
			for l2 in (l1 + 1)..lanes {
				for b in 1..=255u128 {
					f((a << (8 * l1)) | (b << (8 * l2)));
				}
			}
		}
	}
}

/// every (tag byte x top byte x length) combination, with zero / 0xff / pattern fill
fn tag_top_len_strings(mut f: impl FnMut(&[u8])) {
	let mut buf = [0u8; 70];
	for tag in 0..=255u8 {
		for len in 0..=20usize {
			for top in [0u8, 1, 0x3f, 0x40, 0x7f, 0x80, 0xfe, 0xff] {
				for fill in [0u8, 0xff, 0x55] {
					buf[0] = tag;
					for b in buf[1..].iter_mut() {
						*b = fill;
					}
					if len >= 2 {
						buf[len - 1] = top;
					}
					if len >= 1 {
						f(&buf[..len]);
					} else {
						f(&[]);
					}
				}
			}
		}
	}
}

fn random_string(st: &mut Stream, bits: u32, buf: &mut [u8; 24]) -> usize {
	let r = st.next();
	let mode = r & 7;
	let mut fill = [0u8; 24];
	st.fill(&mut fill);
	match mode {
		0 | 1 => {
			// mutated canonical form of a random value
			let x = ((u128::from(st.next()) << 64) | u128::from(st.next())) >> (st.next() % 128);
			let x = x & max_of(bits.max(32));
			let mut b17 = [0u8; 17];
			let n = ref_enc(x, &mut b17);
			buf[..17].copy_from_slice(&b17);
			buf[17..].copy_from_slice(&fill[..7]);
			match (r >> 8) & 3 {
				0 => buf[((r >> 16) % n as u64) as usize] ^= 1 << ((r >> 24) & 7),
				1 => buf[0] = buf[0].wrapping_add(4),
				2 => buf[n - 1] = 0,
				_ => {},
			}
			(n + ((r >> 32) & 3) as usize).min(24)
		},
		2 => {
			// big-integer mode with chosen length and a small top byte
			let n = 4 + ((r >> 8) % 13) as usize;
			buf[0] = 0b11 | (((n - 4) as u8) << 2);
			buf[1..].copy_from_slice(&fill[..23]);
			buf[n] = ((r >> 16) & 3) as u8;
			1 + n - ((r >> 20) & 1) as usize
		},
		_ => {
			buf.copy_from_slice(&fill);
			1 + ((r >> 8) % 20) as usize
		},
	}
}

pub fn run(ctx: &Ctx) -> (Level, Report) {
	let mut report = Report::default();
	let thorough = ctx.tier == Tier::Thorough;
	let bitmap = Bitmap::new(27);
	let known = ctx.known.clone();

	// ---- 1. boundary values ±4096 and two-lane values, every width: full relation set
	for bits in WIDTHS {
		let vals = boundary_values(bits);
		let chunks: Vec<&[u128]> = vals.chunks(vals.len() / ctx.threads + 1).collect();
		let res = parallel_map(chunks.len(), ctx.threads, |i| {
			let mut st = Stats::default();
			let mut first = None;
			for x in chunks[i] {
				st.evaluations += 1;
				if *x >= 64 {
					st.nontrivial(&(bits, *x));
				}
				if let Err(v) = check_value_full(bits, *x) {
					first.get_or_insert((v, *x));
				}
			}
			(st, first)
		});
		for (st, first) in res {
			report.stats.merge(st);
			if let Some((v, x)) = first {
				report.direct(&known, v, json!({"kind": "value", "bits": bits, "value": x.to_string()}));
			}
		}
		report.stats.class_n(&format!("u{bits}:boundary±4096"), vals.len() as u64);
	}

	// ---- 1b. every boundary value re-encoded in every mode able to hold it (non-minimal forms, leading
	// zero bytes): the decoder of every width must agree with the reference on each of them
	for bits in WIDTHS {
		let mut vals = boundary_values(128.min(bits.max(32) * 2));
		vals.sort();
		vals.dedup();
		let chunks: Vec<&[u128]> = vals.chunks(vals.len() / ctx.threads + 1).collect();
		let res = parallel_map(chunks.len(), ctx.threads, |i| {
			let mut first = None;
			let mut n = 0u64;
			for x in chunks[i] {
				for mode in 0..4u8 {
					for extra in 0..3usize {
						if mode < 3 && extra > 0 {
							continue;
						}
						if let Some(sv) = psc_model::mutate::compact_in_mode(*x, mode, extra) {
							n += 1;
							if let Err(v) = string_guarded(bits, &sv) {
								first.get_or_insert((v, sv));
							}
						}
					}
				}
			}
			(n, first)
		});
		let mut total = 0;
		for (n, first) in res {
			total += n;
			if let Some((v, sv)) = first {
				report.direct(&known, v, json!({"kind": "string", "bits": bits, "bytes": hex_full(&sv)}));
			}
		}
		report.stats.evaluations += total;
		report.stats.nontrivial_extra += total - total / 8;
		report.stats.class_n(&format!("u{bits}:boundary-values-in-every-mode(non-minimal forms)"), total);
	}

	// ---- 2. exhaustive values: u8, u16 (full relations), u32 (fast relations; thorough: all 2^32)
	for bits in [8u32, 16] {
		let total = 1u128 << bits;
		let res = parallel_map(ctx.threads, ctx.threads, |i| {
			let mut first = None;
			let mut n = 0u64;
			let mut x = i as u128;
			while x < total {
				n += 1;
				if let Err(v) = check_value_full(bits, x) {
					first.get_or_insert((v, x));
				}
				x += ctx.threads as u128;
			}
			(n, first)
		});
		for (n, first) in res {
			report.stats.evaluations += n;
			if let Some((v, x)) = first {
				report.direct(&known, v, json!({"kind": "value", "bits": bits, "value": x.to_string()}));
			}
		}
		report.stats.nontrivial_extra += (total - 64) as u64;
		report.stats.class_n(&format!("u{bits}:all-values(exhaustive)"), total as u64);
	}
	{
		// u32 values: thorough = every value; quick = 2^24 random + every 2-lane value
		let bits = 32u32;
		let shards = ctx.threads;
		let res = parallel_map(shards, ctx.threads, |i| {
			let mut first: Option<(Violation, u128)> = None;
			let mut n = 0u64;
			let mut buf = [0u8; 17];
			let mut one = |x: u128, first: &mut Option<(Violation, u128)>| {
				let len = ref_enc(x, &mut buf);
				let ok = real_fast(bits, x, &buf[..len]) && real_dec(bits, &buf[..len]) == Some((x, len));
				if !ok && first.is_none() {
					if let Err(v) = check_value_full(bits, x) {
						*first = Some((v, x));
					} else {
						*first = Some((Violation::new("C04/fast-path/u32", format!("fast relation failed for {x}")), x));
					}
				}
			};
			if thorough {
				let lo = (i as u128) << 28;
				for x in lo..lo + (1 << 28) {
					one(x, &mut first);
				}
				n += 1 << 28;
			} else {
				let mut st = splitmix(ctx.seed ^ 0xC04 ^ ((i as u64) << 32));
				for _ in 0..(1u32 << 20) {
					let x = u128::from(st.next() as u32) >> (st.next() % 32);
					bitmap.set(fingerprint(&(bits, x)));
					one(x, &mut first);
				}
				n += 1 << 20;
			}
			(n, first)
		});
		for (n, first) in res {
			report.stats.evaluations += n;
			if let Some((v, x)) = first {
				report.direct(&known, v, json!({"kind": "value", "bits": bits, "value": x.to_string()}));
			}
		}
		if thorough {
			report.stats.nontrivial_extra += (1u64 << 32) - 64;
			report.stats.class_n("u32:all-values(exhaustive)", 1 << 32);
		} else {
			report.stats.class_n("u32:random-values", 1 << 24);
		}
	}
	// two-lane values, widths 32/64/128 (fast relations + decode in own width)
	for bits in [32u32, 64, 128] {
		let mut vals: Vec<u128> = vec![];
		two_lane_values(bits, |x| vals.push(x));
		let chunks: Vec<&[u128]> = vals.chunks(vals.len() / ctx.threads + 1).collect();
		let res = parallel_map(chunks.len(), ctx.threads, |i| {
			let mut first = None;
			let mut buf = [0u8; 17];
			for (k, x) in chunks[i].iter().enumerate() {
				let len = ref_enc(*x, &mut buf);
				let ok = real_fast(bits, *x, &buf[..len]) && real_dec(bits, &buf[..len]) == Some((*x, len));
				if (!ok || k % 4096 == 0) && first.is_none() {
					if let Err(v) = check_value_full(bits, *x) {
						first = Some((v, *x));
					}
				}
			}
			first
		});
		report.stats.evaluations += vals.len() as u64;
		report.stats.nontrivial_extra += vals.len() as u64; // distinct by construction, all >= 64 except a few
		report.stats.class_n(&format!("u{bits}:two-lane-values"), vals.len() as u64);
		for first in res.into_iter().flatten() {
			report.direct(&known, first.0, json!({"kind": "value", "bits": bits, "value": first.1.to_string()}));
		}
	}

	// ---- 3. random values 64/128 bit
	for bits in [64u32, 128] {
		let per_shard: u64 = if thorough { 100_000_000 / ctx.threads as u64 } else { 4_000_000 / ctx.threads as u64 };
		let res = parallel_map(ctx.threads, ctx.threads, |i| {
			let mut st = splitmix(ctx.seed ^ u64::from(bits) << 40 ^ (i as u64) << 8 ^ 0x04);
			let mut first = None;
			let mut buf = [0u8; 17];
			for k in 0..per_shard {
				let raw = (u128::from(st.next()) << 64) | u128::from(st.next());
				let x = (raw >> (st.next() % u64::from(bits))) & max_of(bits);
				let len = ref_enc(x, &mut buf);
				bitmap.set(fingerprint(&(bits, x)));
				let ok = real_fast(bits, x, &buf[..len]) && real_dec(bits, &buf[..len]) == Some((x, len));
				if (!ok || k % 65536 == 0) && first.is_none() {
					if let Err(v) = check_value_full(bits, x) {
						first = Some((v, x));
					}
				}
			}
			first
		});
		report.stats.evaluations += per_shard * ctx.threads as u64;
		report.stats.class_n(&format!("u{bits}:random-values"), per_shard * ctx.threads as u64);
		for first in res.into_iter().flatten() {
			report.direct(&known, first.0, json!({"kind": "value", "bits": bits, "value": first.1.to_string()}));
		}
	}

	// ---- 4. strings: exhaustive for the 8-bit decoder (<= 2 bytes read) and the 16-bit decoder
	// (<= 4 bytes read); thorough: everything the 32-bit decoder can distinguish (<= 5 bytes)
	{
		// 8-bit: all strings of length 0..=2; 3-byte strings add nothing the decoder can read
		let mut first = None;
		let mut n = 0u64;
		for len in 0..=2usize {
			for x in 0..(1u32 << (8 * len)) {
				let s = [x as u8, (x >> 8) as u8];
				n += 1;
				if let Err(v) = string_guarded(8, &s[..len]) {
					first.get_or_insert((v, s[..len].to_vec()));
				}
			}
		}
		report.stats.evaluations += n;
		report.stats.nontrivial_extra += 65536;
		report.stats.class_n("u8:all-strings<=2(exhaustive)", n);
		if let Some((v, s)) = first {
			report.direct(&known, v, json!({"kind": "string", "bits": 8, "bytes": hex_full(&s)}));
		}
	}
	for (bits, maxlen) in [(16u32, 4usize), (32, 5)] {
		if bits == 32 && !thorough {
			continue;
		}
		// shard by first byte; lengths 0..maxlen: only strings the decoder can distinguish: the mode of
		// the first byte fixes how many further bytes are read, so enumerate exactly those.
		let res = parallel_map(256, ctx.threads, |fb| {
			let fb = fb as u8;
			let need = match fb & 3 {
				0 => 1usize,
				1 => 2,
				2 => 4,
				_ => {
					let n = usize::from(fb >> 2) + 4;
					if n > (bits as usize / 8).max(4) { 1 } else { 1 + n }
				},
			};
			let need = need.min(maxlen);
			let mut first: Option<(Violation, Vec<u8>)> = None;
			let mut n = 0u64;
			let mut buf = [0u8; 8];
			buf[0] = fb;
			// all truncations
			for len in 1..=need {
				let free = len - 1;
				let total: u64 = 1u64 << (8 * free);
				// full enumeration for the final length; truncations: enumerate too (they are cheaper)
				for x in 0..total {
					buf[1..5].copy_from_slice(&(x as u32).to_le_bytes());
					n += 1;
					if ref_dec(bits, &buf[..len]) != real_dec(bits, &buf[..len]) && first.is_none() {
						if let Err(v) = string_guarded(bits, &buf[..len]) {
							first = Some((v, buf[..len].to_vec()));
						}
					}
				}
			}
			(n, first)
		});
		let mut total = 0u64;
		for (n, first) in res {
			total += n;
			if let Some((v, s)) = first {
				report.direct(&known, v, json!({"kind": "string", "bits": bits, "bytes": hex_full(&s)}));
			}
		}
		report.stats.evaluations += total + 1;
		let _ = string_guarded(bits, &[]).map_err(|v| report.direct(&known, v, json!({"kind": "string", "bits": bits, "bytes": ""})));
		report.stats.nontrivial_extra += total - 256;
		report.stats.class_n(&format!("u{bits}:all-distinguishable-strings(exhaustive)"), total + 1);
	}

	// ---- 5. (tag x top byte x length) strings and random/mutated strings, every width
	for bits in WIDTHS {
		let mut first = None;
		let mut n = 0u64;
		tag_top_len_strings(|s| {
			n += 1;
			if s.len() > 1 {
				report.stats.nontrivial(&(bits, s));
			}
			if let Err(v) = string_guarded(bits, s) {
				first.get_or_insert((v, s.to_vec()));
			}
		});
		report.stats.evaluations += n;
		report.stats.class_n(&format!("u{bits}:tag×top×length-strings"), n);
		if let Some((v, s)) = first {
			report.direct(&known, v, json!({"kind": "string", "bits": bits, "bytes": hex_full(&s)}));
		}
		if bits == 8 || (bits == 16) || (bits == 32 && thorough) {
			continue; // exhaustively enumerated above
		}
		let per_shard: u64 = if thorough { 100_000_000 / ctx.threads as u64 } else { 8_000_000 / ctx.threads as u64 };
		let res = parallel_map(ctx.threads, ctx.threads, |i| {
			let mut st = splitmix(ctx.seed ^ u64::from(bits) << 44 ^ (i as u64) << 12 ^ 0x57);
			let mut first = None;
			let mut buf = [0u8; 24];
			for _ in 0..per_shard {
				let len = random_string(&mut st, bits, &mut buf);
				bitmap.set(fingerprint(&(bits, &buf[..len])));
				if ref_dec(bits, &buf[..len]) != real_dec(bits, &buf[..len]) && first.is_none() {
					if let Err(v) = string_guarded(bits, &buf[..len]) {
						first = Some((v, buf[..len].to_vec()));
					}
				}
			}
			first
		});
		report.stats.evaluations += per_shard * ctx.threads as u64;
		report.stats.class_n(&format!("u{bits}:random+mutated-strings"), per_shard * ctx.threads as u64);
		for first in res.into_iter().flatten() {
			report.direct(&known, first.0, json!({"kind": "string", "bits": bits, "bytes": hex_full(&first.1)}));
		}
	}
	report.stats.nontrivial_extra += bitmap.count();
	report.stats.extra.insert(
		"distinct_counting".into(),
		json!("enumerated domains counted by construction; random values/strings counted with a 2^27-bit bitmap (conservative: collisions only lower the count)"),
	);
	for s in [(8u32, 63u128), (16, 16384), (32, 1 << 30), (64, u64::MAX as u128), (128, u128::MAX)] {
		let mut b = [0u8; 17];
		let n = ref_enc(s.1, &mut b);
		report.stats.samples.push(json!({"width": s.0, "value": s.1.to_string(), "canonical": hex(&b[..n])}));
	}
	report.stats.samples.push(json!({"width": 32, "string": "0100", "reference": "reject (non-minimal)"}));
	report.exhaustive = false;
	(
		Level {
			level: "exploration",
			rule: "values: every u8 and u16 value, (thorough: every u32 value; quick: 2^24 random u32), every compact class boundary ±4096 \
for all five widths, every value with at most two non-zero byte lanes (32/64/128 bit), random 64/128-bit values; strings: every string the \
8- and 16-bit decoders can distinguish incl. all truncations (thorough: also the 32-bit decoder's ~5.4e9), every (tag byte x top byte x length) \
combination for all widths, random and mutated strings. Oracle: arithmetic reference enc/dec (shortest form; accept iff canonical form of a \
fitting value), all Encode entry points and compact_len, decode with suffix in every width (wider accepts same bytes, narrower rejects iff \
value too large), every strict prefix rejected. Non-trivial = value >= 64 or string longer than one byte.",
			assumptions: vec!["two independently written arithmetic references (model crate and this module) are cross-checked on every reported disagreement and on all boundary values"],
		},
		report,
	)
}

pub fn replay_direct(_ctx: &Ctx, doc: &psc_model::serde_json::Value) -> Option<Result<(), Violation>> {
	let bits = doc["bits"].as_u64()? as u32;
	match doc["kind"].as_str()? {
		"value" => Some(check_value_full(bits, doc["value"].as_str()?.parse().ok()?)),
		"string" => Some(string_guarded(bits, &unhex(doc["bytes"].as_str()?))),
		_ => None,
	}
}
