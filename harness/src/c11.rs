//! C11 — depth-limited decoding is transparent, monotone and stack-safe.

use crate::common::*;
use psc_bridge::zoo::Entry;
use psc_model::{
	dec::ref_decode_ex,
	enc::ref_encode,
	gen::Gen,
	mutate::gen_input,
	runner::{guard, CheckFn},
	serde_json::json,
	stats::*,
	ty::*,
	valgen::*,
};

pub fn nested(zoo: &[Entry]) -> Vec<&Entry> {
	// (types without any heap container are included: they must decode at limit 0, whatever their decoder does inside)
	zoo.iter().filter(|e| e.decode_slice.is_some() && e.encode.is_some() && e.depth.is_some()).collect()
}

fn deepest_kind(ty: &Ty) -> &'static str {
	ty.family()
}

/// Clauses 1, 2, 5 on arbitrary bytes; clauses 3, 4 when the exact value (and so its depth) is known.
pub fn check_limits(e: &Entry, bytes: &[u8], known_val: Option<&Val>, family: &str, stats: &mut Stats) -> Result<(), Violation> {
	let (_, giant) = ref_decode_ex(&e.ty, bytes);
	if giant > crate::c03::GIANT_ZW_CAP {
		stats.exclude("zero-width-elements-giant-count");
		return Ok(());
	}
	let plain = guard(|| (e.decode_slice.unwrap())(bytes))
		.map_err(|p| Violation::new(format!("C11/panic/plain/{}", e.ty.family()), format!("type {}: {p}", e.name)))?;
	let d_hi = known_val.map(|v| depth_hi(&e.ty, v));
	let d_lo = known_val.map(|v| depth_lo(&e.ty, v));
	let top = d_hi.unwrap_or(e.ty.static_depth() as u32).min(70) + 2;
	stats.eval();
	stats.class(&format!("input:{family}"));
	stats.class(&format!("family:{}", deepest_kind(&e.ty)));
	if let Some(d) = d_hi {
		stats.class(&format!("D_hi:{}", if d >= 8 { "8+".to_string() } else { d.to_string() }));
		if d >= 2 {
			stats.nontrivial(&(e.name, bytes));
		}
	}
	stats.sample(|| json!({"type": e.name, "bytes": hex(bytes), "D_hi": d_hi, "limits": format!("0..={top}"), "plain_ok": plain.0.is_ok()}));
	let mut prev_ok = false;
	for limit in 0..=top {
		let r = guard(|| (e.depth.unwrap())(bytes, limit)).map_err(|p| {
			Violation::new(format!("C11/panic/limited/{}", e.ty.family()), format!("type {} limit {limit}: {p}", e.name))
		})?;
		let all = guard(|| (e.decode_all_depth.unwrap())(bytes, limit)).map_err(|p| {
			Violation::new(format!("C11/panic/limited/{}", e.ty.family()), format!("type {} limit {limit}: {p}", e.name))
		})?;
		let ok = r.0.is_ok();
		// 1. transparent
		if let Ok(v) = &r.0 {
			let same = match &plain.0 {
				Ok(p) => eqv(&normalize(&e.ty, p), &normalize(&e.ty, v)) && plain.1 == r.1,
				Err(_) => false,
			};
			if !same {
				return Err(Violation::new(
					format!("C11/transparent/{}", e.ty.family()),
					format!(
						"type {} limit {limit}: depth-limited decoding returned something unlimited decoding does not\nbytes {}\nlimited {} (consumed {})\nplain   {} (consumed {})",
						e.name,
						hex(bytes),
						v.brief(200),
						r.1,
						plain.0.as_ref().map(|v| v.brief(200)).unwrap_or_else(|e| format!("error {e}")),
						plain.1
					),
				));
			}
		}
		// 2. monotone
		if prev_ok && !ok {
			return Err(Violation::new(
				format!("C11/monotone/{}", e.ty.family()),
				format!("type {}: succeeds at limit {} but fails at limit {limit}\nbytes {}", e.name, limit - 1, hex(bytes)),
			));
		}
		prev_ok = ok;
		// 3 + 4 against the known value depth
		if let (Some(d), Ok(_)) = (d_hi, &plain.0) {
			stats.class(&format!("L-D_hi:{}", (i64::from(limit) - i64::from(d)).clamp(-3, 2)));
			if limit >= d && !ok {
				return Err(Violation::new(
					format!("C11/sufficient/{}", e.ty.family()),
					format!(
						"type {}: value nests {d} container level(s) but decoding with limit {limit} fails\nbytes {}\nvalue {}",
						e.name,
						hex(bytes),
						known_val.unwrap().brief(300)
					),
				));
			}
			let lo = d_lo.unwrap_or(0);
			stats.class(&format!("D_hi-D_lo:{}", d - lo));
			if limit < lo && ok {
				return Err(Violation::new(
					format!("C11/necessary/{}", e.ty.family()),
					format!(
						"type {}: value recurses through {d} container levels ({lo} of them counted even by the crate's documented rule, which leaves out leaf vectors of bulk-read primitives, strings and bit sequences) but decoding with limit {limit} succeeds\nbytes {}\nvalue {}",
						e.name,
						hex(bytes),
						known_val.unwrap().brief(300)
					),
				));
			}
		}
		// 5. consume-everything variant
		let expect_all = ok && r.1 == bytes.len();
		if all.is_ok() != expect_all {
			return Err(Violation::new(
				format!("C11/decode_all/{}", e.ty.family()),
				format!(
					"type {} limit {limit}: decode_with_depth_limit {} consuming {} of {} bytes, but decode_all_with_depth_limit {}\nbytes {}",
					e.name,
					if ok { "succeeds" } else { "fails" },
					r.1,
					bytes.len(),
					if all.is_ok() { "succeeds" } else { "fails" },
					hex(bytes)
				),
			));
		}
	}
	Ok(())
}

// ---------------------------------------------------------------------------------------------
// stack safety: adversarially deep inputs for the recursive types on a small fixed stack

pub const STACK_BYTES: usize = 2 << 20;

/// Input nested `n` levels for the recursive zoo type `name`.
pub fn deep_input(name: &str, n: usize) -> Vec<u8> {
	let mut b = Vec::with_capacity(3 * n + 8);
	match name {
		"Tree" => {
			for _ in 0..n {
				b.extend_from_slice(&[1, 4]); // Node { children: vec![ ... ] }
			}
			b.extend_from_slice(&[0, 7]); // Leaf { v: 7 }
		},
		"Vec<Tree>" => {
			b.push(4);
			b.extend(deep_input("Tree", n));
		},
		"Linked" => {
			for _ in 0..n {
				b.extend_from_slice(&[9, 1]); // v, Some(Box(...))
			}
			b.extend_from_slice(&[9, 0]);
		},
		"MapTree" => {
			for _ in 0..n {
				b.extend_from_slice(&[1, 4, 5]); // N { m: {5: ...} }
			}
			b.push(0);
		},
		"BoxTree" => {
			for _ in 0..n {
				b.push(1); // N { l: ...
			}
			b.extend_from_slice(&[0, 1, 0]); // L { v: 1 }
			for _ in 0..n {
				b.extend_from_slice(&[0, 2, 0]); // ..., r: L { v: 2 } }
			}
		},
		"ArcChain" => {
			for _ in 0..n {
				b.push(1); // Link { next: Arc(...) }
			}
			b.push(0);
		},
		"RcList" => {
			for _ in 0..n {
				b.extend_from_slice(&[3, 1]); // v, Some(Rc(...))
			}
			b.extend_from_slice(&[3, 0]);
		},
		other => panic!("harness: no deep input for {other}"),
	}
	b
}

pub const RECURSIVE: [&str; 7] = ["Tree", "Vec<Tree>", "Linked", "MapTree", "BoxTree", "ArcChain", "RcList"];

pub fn check_stack(ctx_zoo: &[Entry], g: &mut Gen, stats: &mut Stats) -> Result<(), Violation> {
	let name = *g.pick(&RECURSIVE);
	let e = ctx_zoo.iter().find(|e| e.name == name).expect("harness: recursive entry");
	let levels = *g.pick(&[1_000usize, 10_000, 100_000, 1_000_000, 300, 5_000]) + g.below(7);
	let limit = *g.pick(&[0u32, 1, 16, 64, 256, 2, 100]);
	let bytes = deep_input(name, levels);
	let f = e.depth_ok.unwrap();
	stats.eval();
	stats.class(&format!("stack:{name}"));
	stats.class(&format!("stack-levels:1e{}", (levels as f64).log10().floor()));
	stats.nontrivial(&(name, levels, limit));
	stats.sample(|| json!({"relation": "deep input rejected on a 2 MiB stack", "type": name, "levels": levels, "limit": limit, "input_len": bytes.len()}));
	// the decode runs on a thread with a small fixed stack; overflowing it kills the process,
	// which the crash-recovering worker observes
	let handle = std::thread::Builder::new()
		.stack_size(STACK_BYTES)
		.spawn(move || f(&bytes, limit))
		.expect("harness: spawn small-stack thread");
	match handle.join() {
		Ok(false) => Ok(()),
		Ok(true) => Err(Violation::new(
			format!("C11/deep-accepted/{name}"),
			format!("type {name}: input nested {levels} levels decodes successfully with depth limit {limit}"),
		)),
		Err(_) => Err(Violation::new(
			format!("C11/deep-panic/{name}"),
			format!("type {name}: decoding input nested {levels} levels with depth limit {limit} panicked"),
		)),
	}
}

pub fn tape_checks(ctx: &Ctx) -> Vec<(&'static str, Box<CheckFn<'_>>)> {
	let entries = nested(&ctx.zoo);
	let entries2 = entries.clone();
	let zoo = &ctx.zoo;
	vec![
		(
			"values",
			Box::new(move |g: &mut Gen, stats: &mut Stats| {
				let e = pick_entry(g, &entries);
				// wide-but-shallow and deep-but-narrow
				let deep = g.bool();
				let mut cfg = GenCfg {
					budget: if deep { 60 } else { 2000 },
					rec_depth: if deep { 3 + g.below(60) as u32 } else { g.below(5) as u32 },
					..GenCfg::default()
				};
				let v = gen_val(&e.ty, g, &mut cfg);
				let mut bytes = ref_encode(&e.ty, &v);
				let family = if g.bool() {
					let n = 1 + g.below(3);
					bytes.extend(g.bytes(n));
					"valid+suffix"
				} else {
					"valid"
				};
				// the reference encoding is what the crate produces (C01); the value's depth is known
				check_limits(e, &bytes, Some(&v), family, stats)
			}),
		),
		(
			"bytes",
			Box::new(move |g: &mut Gen, stats: &mut Stats| {
				let e = pick_entry(g, &entries2);
				let (mut bytes, family) = gen_input(&e.ty, g, 128);
				if e.is_recursive() && bytes.len() > 256 {
					bytes.truncate(256);
				}
				check_limits(e, &bytes, None, family, stats)
			}),
		),
		("stack-safety", Box::new(move |g: &mut Gen, stats: &mut Stats| check_stack(zoo, g, stats))),
	]
}

pub fn budget(name: &str) -> (u32, u32, usize) {
	match name {
		"values" => (120_000, 8, 2048),
		"bytes" => (120_000, 10, 1024),
		_ => (600, 10, 64),
	}
}

pub fn run(ctx: &Ctx) -> (Level, Report) {
	let mut report = Report::default();
	for (name, check) in tape_checks(ctx) {
		if name == "stack-safety" {
			crate::worker::run_in_worker(ctx, name, "C11/stack-exhausted", &mut report);
			continue;
		}
		let (q, f, t) = budget(name);
		let out = ctx.random(name, q, f, t, &*check);
		report.absorb(name, out);
	}
	(
		Level {
			level: "exploration",
			rule: "values: zoo types nesting Vec/Box/Rc/Arc/BTreeMap/BTreeSet/LinkedList/VecDeque/BinaryHeap/Option/tuples and recursive derived types, \
wide-but-shallow and deep-but-narrow (recursion depth up to 60) generated values, every limit L in 0..=D_hi+2: (1) limited result is Err or equals \
the unlimited result, (2) success at L implies success at L+1, (3) success whenever L >= D_hi (container nesting depth of the value), (4) failure \
whenever L < D_lo (D_hi without the leaf containers the crate is tested not to count: Vec/VecDeque/BinaryHeap/byte buffers of integers and floats, String, bit sequences), (5) decode_all_with_depth_limit succeeds iff the limited decode succeeds and nothing remains; bytes: the same clauses 1, 2, 5 \
on mutated strings; stack safety: inputs nested 3e2..1e6 levels for seven recursive types (through Vec, Box, BTreeMap, Arc, Rc) with L in {0,1,2,16,64,100,256} decoded on a 2 MiB stack \
inside a crash-recovering worker process (must return Err; a dead worker is a violation). Non-trivial = value with D_hi >= 2, or a deep input.",
			assumptions: vec![
				"between D_lo and D_hi either outcome is accepted: the crate does not count a leaf container of bulk-read primitives (its own test requires that); for every other container the threshold is exact",
				"stack safety is observed at one stack size (2 MiB, std's default for spawned threads)",
			],
		},
		report,
	)
}
