//! Program generator: derive definitions from a tape, their Rust source, and — from the
//! *definition*, not from the macro under test — the `impl Modeled` stating the layout the
//! documentation promises, plus the C17 reference predicate.

use psc_model::gen::Gen;

#[derive(Clone, Debug, PartialEq)]
pub enum Mode {
	Plain,
	Skip,
	Compact,
	/// `#[codec(encoded_as = "..")]`: (attribute text, Rust type whose `Modeled::ty()` is the wire type)
	EncodedAs(String, String),
}

#[derive(Clone, Debug, PartialEq)]
pub struct FieldDef {
	pub ty: String,
	pub mode: Mode,
	/// extra conflicting attributes (C17 only)
	pub extra_attrs: Vec<String>,
}

#[derive(Clone, Debug, PartialEq)]
pub struct VarDef {
	pub index_attr: Option<u32>,
	pub discriminant: Option<u32>,
	pub skip: bool,
	pub fields: Vec<FieldDef>,
	pub tuple: bool,
}

#[derive(Clone, Debug, PartialEq)]
pub enum Body {
	Struct { fields: Vec<FieldDef>, tuple: bool },
	Enum { variants: Vec<VarDef> },
	Union,
}

#[derive(Clone, Debug, PartialEq)]
pub struct Def {
	pub name: String,
	pub body: Body,
	/// generic parameters (each used in a field or a skipped PhantomData)
	pub generics: Vec<String>,
	/// concrete instantiation used at the use site, one type per parameter
	pub inst: Vec<String>,
	pub transparent: bool,
	pub repr_int: Option<&'static str>,
	pub derive_mel: bool,
	pub derive_compact_as: bool,
	pub dumb_trait_bound: bool,
	/// `#[codec(mel_bound(T: MaxEncodedLen))]`: the hand-written form of the bound the derive would generate
	pub mel_bound: bool,
}

pub const PLAIN_TYPES: [&str; 22] = [
	"u8", "u16", "u32", "u64", "u128", "i16", "i64", "bool", "()", "String", "Vec<u8>", "Vec<u32>", "Option<u16>", "[u8; 4]",
	"(u8, u16)", "Box<u32>", "BTreeMap<u8, u16>", "PhantomData<u8>", "Compact<u32>", "Option<bool>", "Vec<String>", "[u16; 3]",
];
/// bounded types (have MaxEncodedLen)
pub const MEL_TYPES: [&str; 14] =
	["u8", "u16", "u32", "u64", "u128", "i16", "bool", "()", "Option<u16>", "[u8; 4]", "(u8, u16)", "Box<u32>", "PhantomData<u8>", "Compact<u32>"];
pub const SKIP_TYPES: [&str; 7] = ["u32", "Vec<u8>", "Option<u16>", "PhantomData<u8>", "String", "bool", "()"];
pub const COMPACT_TYPES: [&str; 6] = ["u8", "u16", "u32", "u64", "u128", "()"];

fn gen_field(g: &mut Gen, mel: bool, generics: &[String], prior: &[String]) -> FieldDef {
	let mode = match g.below(10) {
		0 | 1 => Mode::Skip,
		2 | 3 => Mode::Compact,
		4 => {
			let t = *g.pick(&["u8", "u16", "u32", "u64", "u128"]);
			if g.bool() {
				Mode::EncodedAs(format!("Compact<{t}>"), format!("Compact<{t}>"))
			} else {
				Mode::EncodedAs(format!("<{t} as HasCompact>::Type"), format!("Compact<{t}>"))
			}
		},
		_ => Mode::Plain,
	};
	let ty = match &mode {
		Mode::Skip => g.pick(&SKIP_TYPES).to_string(),
		Mode::Compact =>
			if g.chance(40) {
				g.pick(&CW_TYPES).to_string() // a CompactAs wrapper from the prelude (over u32, u8, u16, u64, u128)
			} else {
				g.pick(&COMPACT_TYPES).to_string()
			},
		Mode::EncodedAs(_, wire) => wire.trim_start_matches("Compact<").trim_end_matches('>').to_string(),
		Mode::Plain => {
			if !generics.is_empty() && g.chance(80) {
				g.pick(generics).clone()
			} else if !prior.is_empty() && g.chance(48) && !mel {
				g.pick(prior).clone()
			} else if mel {
				g.pick(&MEL_TYPES).to_string()
			} else {
				g.pick(&PLAIN_TYPES).to_string()
			}
		},
	};
	FieldDef { ty, mode, extra_attrs: vec![] }
}

pub const CW_TYPES: [&str; 5] = ["CW", "CW8", "CW16", "CW64", "CW128"];
pub const INT_TYPES: [&str; 5] = ["u8", "u16", "u32", "u64", "u128"];

fn twin_fields(g: &mut Gen, prev: &[FieldDef]) -> Vec<FieldDef> {
	prev.iter()
		.map(|f| {
			if !INT_TYPES.contains(&f.ty.as_str()) || f.mode == Mode::Skip {
				return f.clone();
			}
			let t = f.ty.clone();
			let mode = match (g.below(3), &f.mode) {
				(0, Mode::Plain) | (1, Mode::Compact) => Mode::EncodedAs(format!("Compact<{t}>"), format!("Compact<{t}>")),
				(0, _) => Mode::Plain,
				_ => Mode::Compact,
			};
			FieldDef { ty: t, mode, extra_attrs: vec![] }
		})
		.collect()
}

fn gen_fields(g: &mut Gen, mel: bool, generics: &[String], prior: &[String]) -> Vec<FieldDef> {
	let n = match g.below(8) {
		0 => 0,
		1 | 2 => 1,
		3 => 2,
		_ => 1 + g.below(5),
	};
	let mut f: Vec<FieldDef> = (0..n).map(|_| gen_field(g, mel, generics, prior)).collect();
	// deliberately common: exactly one non-skipped field (the forwarding optimisation)
	if g.chance(56) && f.len() >= 2 {
		let keep = g.below(f.len());
		for (i, x) in f.iter_mut().enumerate() {
			if i != keep && x.mode != Mode::Skip {
				x.mode = Mode::Skip;
				x.ty = g.pick(&SKIP_TYPES).to_string();
			}
		}
	}
	// zero-sized markers that are NOT skipped, at any position (a marker before the only real field moves its index)
	if g.chance(48) {
		let at = g.below(f.len() + 1);
		let ty = if !generics.is_empty() && g.bool() { format!("PhantomData<{}>", generics[0]) } else { "PhantomData<u8>".to_string() };
		f.insert(at, FieldDef { ty, mode: Mode::Plain, extra_attrs: vec![] });
	}
	f
}

/// A *valid* definition (every rule of DESIGN §4.3 respected).
pub fn gen_valid_def(g: &mut Gen, name: &str, mel: bool, prior: &[String]) -> Def {
	let generic = g.chance(48);
	let generics: Vec<String> = if generic { vec!["T".to_string()] } else { vec![] };
	let inst: Vec<String> = if generic {
		vec![if mel { *g.pick(&["u16", "u64", "bool"]) } else { *g.pick(&["u16", "String", "Vec<u8>", "u64"]) }.to_string()]
	} else {
		vec![]
	};
	let is_enum = g.chance(128);
	let mut def = if !is_enum {
		let tuple = g.bool();
		let mut fields = gen_fields(g, mel, &generics, prior);
		let mut transparent = false;
		if g.chance(32) {
			// repr(transparent): exactly one non-zero-sized field, plain, plus zero-sized companions
			let inner = g.pick(&["[u8; 4]", "u64", "Box<u32>", "[u16; 3]", "Vec<u8>", "Box<[u8; 4]>"]).to_string();
			let inner = if mel && (inner.contains("Vec") || inner.contains("Box<[")) { "[u8; 4]".to_string() } else { inner };
			// the in-place decode path must not be taken when the field has its own representation
			let (inner, mode) = match g.below(5) {
				0 => ("u32".to_string(), Mode::Compact),
				1 => ("u64".to_string(), Mode::EncodedAs("Compact<u64>".into(), "Compact<u64>".into())),
				2 => (g.pick(&CW_TYPES).to_string(), Mode::Compact),
				_ => (inner, Mode::Plain),
			};
			fields = vec![FieldDef { ty: inner, mode, extra_attrs: vec![] }];
			for _ in 0..g.below(3) {
				fields.push(FieldDef { ty: g.pick(&["PhantomData<u8>", "()"]).to_string(), mode: Mode::Plain, extra_attrs: vec![] });
			}
			if g.bool() {
				fields.rotate_right(1);
			}
			transparent = true;
		}
		Def {
			name: name.to_string(),
			body: Body::Struct { fields, tuple },
			generics: generics.clone(),
			inst: inst.clone(),
			transparent,
			repr_int: None,
			derive_mel: mel,
			derive_compact_as: false,
			dumb_trait_bound: false,
		mel_bound: false,
		}
	} else {
		let special = g.below(24);
		let nvars = match special {
			0 => 0,
			1 => 255,
			2 => 256,
			_ => 1 + g.below(8),
		};
		let all_skipped = special == 3;
		let unit_only = nvars > 8 || g.chance(64);
		let use_discr = g.chance(110);
		let mut variants: Vec<VarDef> = vec![];
		for i in 0..nvars {
			let fields = if unit_only {
				vec![]
			} else if i > 0 && g.chance(80) && variants[i - 1].fields.iter().any(|f| INT_TYPES.contains(&f.ty.as_str()) && f.mode != Mode::Skip) {
				// a twin of the previous variant: the same field types in another representation (anything keyed on
				// the field types alone — caching, de-duplication — must still tell the two apart)
				twin_fields(g, &variants[i - 1].fields)
			} else {
				gen_fields(g, mel, &generics, prior)
			};
			let tuple = g.bool();
			let skip = all_skipped || (nvars <= 8 && g.chance(40));
			variants.push(VarDef { index_attr: None, discriminant: None, skip, fields, tuple });
			let _ = i;
		}
		// assign index sources so that the indices of non-skipped variants are distinct and <= 255
		let mut def = Def {
			name: name.to_string(),
			body: Body::Enum { variants },
			generics: generics.clone(),
			inst: inst.clone(),
			transparent: false,
			repr_int: None,
			derive_mel: mel,
			derive_compact_as: false,
			dumb_trait_bound: false,
		mel_bound: false,
		};
		if nvars <= 8 {
			assign_valid_indices(g, &mut def, use_discr);
		}
		def
	};
	// generic parameters must be used: add a skipped PhantomData when they are not
	if generic && !uses_param(&def, "T") {
		let extra = FieldDef { ty: "PhantomData<T>".into(), mode: Mode::Skip, extra_attrs: vec![] };
		match &mut def.body {
			Body::Struct { fields, .. } if !def.transparent => fields.push(extra),
			Body::Enum { variants } if variants.iter().any(|v| !v.skip) => {
				let v = variants.iter_mut().find(|v| !v.skip).unwrap();
				v.fields.push(extra);
			},
			_ => {
				// the parameter cannot be kept (nothing encodable mentions it): make the definition concrete
				let concrete = def.inst.first().cloned().unwrap_or_else(|| "u16".to_string());
				def.generics.clear();
				def.inst.clear();
				substitute_param(&mut def, "T", &concrete);
			},
		}
	}
	if def.generics.len() == 1 && g.chance(24) {
		def.dumb_trait_bound = true;
	}
	if def.generics.len() == 1 && def.derive_mel && !def.transparent && g.chance(160) {
		def.mel_bound = true;
		// a hand-written bound list replaces the generated where clause: the bound must still be computed from the
		// fields' *selected representations*, so give the definition one that is longer than the declared type
		let t = g.pick(&INT_TYPES).to_string();
		let extra = if g.bool() {
			FieldDef { ty: t, mode: Mode::Compact, extra_attrs: vec![] }
		} else {
			FieldDef { mode: Mode::EncodedAs(format!("Compact<{t}>"), format!("Compact<{t}>")), ty: t, extra_attrs: vec![] }
		};
		match &mut def.body {
			Body::Struct { fields, .. } => fields.push(extra),
			Body::Enum { variants } =>
				if let Some(v) = variants.iter_mut().find(|v| !v.skip) {
					v.fields.push(extra);
				},
			_ => {},
		}
	}
	// explicit discriminants next to data-carrying variants need a primitive representation
	if let Body::Enum { variants } = &def.body {
		if variants.iter().any(|v| v.discriminant.is_some()) && variants.iter().any(|v| !v.fields.is_empty()) {
			def.repr_int = Some("u16");
		}
	}
	def
}

fn substitute_param(def: &mut Def, p: &str, concrete: &str) {
	let fix = |fs: &mut Vec<FieldDef>| {
		for f in fs.iter_mut() {
			if f.ty == p {
				f.ty = concrete.to_string();
			} else if f.ty.contains(&format!("<{p}>")) {
				f.ty = f.ty.replace(&format!("<{p}>"), &format!("<{concrete}>"));
			}
		}
	};
	match &mut def.body {
		Body::Struct { fields, .. } => fix(fields),
		Body::Enum { variants } => variants.iter_mut().for_each(|v| fix(&mut v.fields)),
		Body::Union => {},
	}
}

/// Rust-level well-formedness the generator is responsible for (a failure is a generator bug, exit 2).
pub fn well_formed(def: &Def) -> Result<(), String> {
	let mut all: Vec<&FieldDef> = vec![];
	match &def.body {
		Body::Struct { fields, .. } => all.extend(fields.iter()),
		Body::Enum { variants } => variants.iter().for_each(|v| all.extend(v.fields.iter())),
		Body::Union => {},
	}
	for f in &all {
		let mentions = f.ty == "T" || f.ty.contains("<T>");
		if mentions && def.generics.is_empty() {
			return Err(format!("field type {} mentions an undeclared parameter", f.ty));
		}
		if f.mode == Mode::Skip && !SKIP_TYPES.contains(&f.ty.as_str()) && !f.ty.starts_with("PhantomData<") {
			return Err(format!("skipped field of non-Default type {}", f.ty));
		}
		if f.mode == Mode::Compact && !COMPACT_TYPES.contains(&f.ty.as_str()) && !CW_TYPES.contains(&f.ty.as_str()) {
			return Err(format!("compact field of type {}", f.ty));
		}
	}
	if !def.generics.is_empty() && !uses_param(def, "T") {
		return Err("declared parameter not used by any encodable field".into());
	}
	if let Body::Enum { variants } = &def.body {
		let has_data = variants.iter().any(|v| !v.fields.is_empty());
		if has_data && variants.iter().any(|v| v.discriminant.is_some()) && def.repr_int.is_none() {
			return Err("explicit discriminant next to data-carrying variants without a primitive repr".into());
		}
	}
	Ok(())
}

fn uses_param(def: &Def, p: &str) -> bool {
	let in_fields = |fs: &[FieldDef]| fs.iter().any(|f| f.ty == p || f.ty.contains(&format!("<{p}>")));
	match &def.body {
		Body::Struct { fields, .. } => in_fields(fields),
		// a parameter used only inside skipped variants gets no bound from the derive: treat as unused
		Body::Enum { variants } => variants.iter().filter(|v| !v.skip).any(|v| in_fields(&v.fields)),
		Body::Union => false,
	}
}

fn assign_valid_indices(g: &mut Gen, def: &mut Def, use_discr: bool) {
	let Body::Enum { variants } = &mut def.body else { return };
	let has_data = variants.iter().any(|v| !v.fields.is_empty());
	// (with data-carrying variants explicit discriminants need a primitive repr, which the caller adds)
	let discr_ok = use_discr && (!has_data || g.bool());
	// Rust-level discriminants must be distinct too (skipped variants included)
	let mut used_codec: Vec<u32> = vec![];
	let mut used_rust: Vec<i64> = vec![];
	let mut next_rust: i64 = 0;
	let mut pos = 0u32;
	for v in variants.iter_mut() {
		// what index would this variant get implicitly?
		let implicit = pos;
		let mut rust = next_rust;
		let choice = g.below(6);
		if !v.skip && choice == 0 {
			// index attribute
			let mut k = *g.pick(&[0u32, 1, 2, 3, 7, 15, 100, 254, 255]);
			let mut tries = 0;
			while used_codec.contains(&k) && tries < 300 {
				k = (k + 1) % 256;
				tries += 1;
			}
			v.index_attr = Some(k);
		} else if discr_ok && (choice == 1 || choice == 2) {
			let mut k = *g.pick(&[0u32, 1, 5, 9, 77, 200, 255]);
			let mut tries = 0;
			while (used_codec.contains(&k) || used_rust.contains(&i64::from(k))) && tries < 300 {
				k = (k + 1) % 256;
				tries += 1;
			}
			v.discriminant = Some(k);
			rust = i64::from(k);
			// an index attribute next to an explicit discriminant: the attribute wins
			if !v.skip && g.chance(128) {
				let mut a = *g.pick(&[0u32, 2, 6, 42, 254]);
				let mut tries = 0;
				while (used_codec.contains(&a) || a == k) && tries < 300 {
					a = (a + 1) % 256;
					tries += 1;
				}
				v.index_attr = Some(a);
			}
		}
		if used_rust.contains(&rust) {
			// an implicit Rust discriminant would collide: pin a fresh explicit one only when allowed,
			// otherwise drop the earlier explicit choice
			if discr_ok {
				let mut k = rust;
				while used_rust.contains(&k) {
					k += 1;
				}
				rust = k;
				if rust <= 255 && !used_codec.contains(&(rust as u32)) && v.index_attr.is_none() {
					v.discriminant = Some(rust as u32);
				} else {
					v.discriminant = Some(rust as u32);
					if !v.skip && v.index_attr.is_none() {
						let mut k = 0u32;
						while used_codec.contains(&k) {
							k += 1;
						}
						v.index_attr = Some(k);
					}
				}
			}
		}
		used_rust.push(rust);
		next_rust = rust + 1;
		if !v.skip {
			let idx = v.index_attr.or(v.discriminant).unwrap_or(implicit);
			if used_codec.contains(&idx) || idx > 255 {
				// make it valid with an explicit attribute
				let mut k = 0u32;
				while used_codec.contains(&k) {
					k += 1;
				}
				v.index_attr = Some(k);
				used_codec.push(k);
			} else {
				used_codec.push(idx);
			}
			pos += 1;
		}
	}
	// later implicit positions may collide with earlier explicit indices: final repair pass
	loop {
		let idx = codec_indices(def);
		let Body::Enum { variants } = &mut def.body else { return };
		let mut seen: Vec<u32> = vec![];
		let mut fix: Option<usize> = None;
		for (vi, i) in idx.iter() {
			if seen.contains(i) || *i > 255 {
				fix = Some(*vi);
				break;
			}
			seen.push(*i);
		}
		match fix {
			None => break,
			Some(vi) => {
				let all: Vec<u32> = idx.iter().map(|(_, i)| *i).collect();
				let mut k = 0u32;
				while all.contains(&k) {
					k += 1;
				}
				variants[vi].index_attr = Some(k);
			},
		}
	}
}

/// (variant position, codec index) of every non-skipped variant: attribute > discriminant >
/// position among non-skipped variants.
pub fn codec_indices(def: &Def) -> Vec<(usize, u32)> {
	let Body::Enum { variants } = &def.body else { return vec![] };
	let mut out = vec![];
	let mut pos = 0u32;
	for (vi, v) in variants.iter().enumerate() {
		if v.skip {
			continue;
		}
		out.push((vi, v.index_attr.or(v.discriminant).unwrap_or(pos)));
		pos += 1;
	}
	out
}

/// Why the definition must be rejected at compile time (C17 reference predicate); None = valid.
/// Field attributes in a form the derive documents as invalid ("only `#[codec(skip)]`, `#[codec(compact)]` and
/// `#[codec(encoded_as = \"$EncodeAs\")]` are accepted"): they must be rejected, not accepted and silently ignored.
pub const MALFORMED_FIELD_ATTRS: [&str; 8] = [
	"#[codec(skip = true)]",
	"#[codec(skip(true))]",
	"#[codec(compact(u64))]",
	"#[codec(compact = \"u64\")]",
	"#[codec(encoded_as)]",
	"#[codec(encoded_as(Compact<u32>))]",
	"#[codec(skipped)]",
	"#[codec(index = 3)]",
];

pub fn reject_reason(def: &Def) -> Option<&'static str> {
	match &def.body {
		Body::Union => return Some("union"),
		Body::Struct { fields, .. } => {
			if fields.iter().any(|f| f.extra_attrs.iter().any(|a| MALFORMED_FIELD_ATTRS.contains(&a.as_str()))) {
				return Some("malformed-field-attribute");
			}
			if fields.iter().any(|f| !f.extra_attrs.is_empty()) {
				return Some("conflicting-field-attributes");
			}
			if def.derive_compact_as && fields.iter().filter(|f| f.mode != Mode::Skip).count() != 1 {
				return Some("compact-as-shape");
			}
		},
		Body::Enum { variants } => {
			if def.derive_compact_as {
				return Some("compact-as-on-enum");
			}
			if variants.iter().flat_map(|v| v.fields.iter()).any(|f| f.extra_attrs.iter().any(|a| MALFORMED_FIELD_ATTRS.contains(&a.as_str()))) {
				return Some("malformed-field-attribute");
			}
			if variants.iter().flat_map(|v| v.fields.iter()).any(|f| !f.extra_attrs.is_empty()) {
				return Some("conflicting-field-attributes");
			}
			if variants.iter().filter(|v| !v.skip).count() > 256 {
				return Some("more-than-256-variants");
			}
			let idx = codec_indices(def);
			if idx.iter().any(|(_, i)| *i > 255) {
				return Some("index-above-255");
			}
			for (a, (_, i)) in idx.iter().enumerate() {
				if idx[..a].iter().any(|(_, j)| j == i) {
					return Some("duplicate-index");
				}
			}
		},
	}
	None
}

// ---------------------------------------------------------------------------------------------
// source emission

fn field_attr(f: &FieldDef) -> String {
	let mut s = match &f.mode {
		Mode::Plain => String::new(),
		Mode::Skip => "#[codec(skip)] ".into(),
		Mode::Compact => "#[codec(compact)] ".into(),
		Mode::EncodedAs(a, _) => format!("#[codec(encoded_as = \"{a}\")] "),
	};
	for e in &f.extra_attrs {
		s.push_str(e);
		s.push(' ');
	}
	s
}

fn fields_src(fields: &[FieldDef], tuple: bool, public: bool) -> String {
	if fields.is_empty() {
		return if tuple { "()".into() } else { " {}".into() };
	}
	let vis = if public { "pub " } else { "" };
	if tuple {
		format!("({})", fields.iter().map(|f| format!("{}{vis}{}", field_attr(f), f.ty)).collect::<Vec<_>>().join(", "))
	} else {
		format!(
			" {{ {} }}",
			fields.iter().enumerate().map(|(i, f)| format!("{}{vis}f{i}: {}", field_attr(f), f.ty)).collect::<Vec<_>>().join(", ")
		)
	}
}

impl Def {
	pub fn generics_decl(&self) -> String {
		if self.generics.is_empty() {
			String::new()
		} else {
			format!("<{}>", self.generics.join(", "))
		}
	}

	/// The concrete type expression used at the use site.
	pub fn use_type(&self, module: &str) -> String {
		if self.inst.is_empty() {
			format!("{module}::{}", self.name)
		} else {
			format!("{module}::{}<{}>", self.name, self.inst.join(", "))
		}
	}

	pub fn derives(&self, for_c17: bool) -> String {
		let mut d = vec!["Encode", "Decode"];
		if !for_c17 {
			d.push("DecodeWithMemTracking");
			if self.derive_mel {
				d.push("MaxEncodedLen");
			}
		}
		if self.derive_compact_as {
			d.push("CompactAs");
		}
		format!("#[derive({})]", d.join(", "))
	}

	/// Rust source of the definition.
	pub fn source(&self, for_c17: bool) -> String {
		let mut s = String::new();
		s.push_str(&self.derives(for_c17));
		s.push('\n');
		if self.transparent {
			s.push_str("#[repr(transparent)]\n");
		}
		if let Some(r) = self.repr_int {
			s.push_str(&format!("#[repr({r})]\n"));
		}
		if self.dumb_trait_bound {
			s.push_str("#[codec(dumb_trait_bound)]\n");
		}
		if self.mel_bound && !for_c17 {
			s.push_str(&format!("#[codec(mel_bound({}: MaxEncodedLen))]\n", self.generics[0]));
		}
		match &self.body {
			Body::Struct { fields, tuple } => {
				if fields.is_empty() && !*tuple {
					s.push_str(&format!("pub struct {}{};\n", self.name, self.generics_decl()));
				} else {
					s.push_str(&format!(
						"pub struct {}{}{}{}\n",
						self.name,
						self.generics_decl(),
						fields_src(fields, *tuple, true),
						if *tuple { ";" } else { "" }
					));
				}
			},
			Body::Enum { variants } => {
				s.push_str(&format!("pub enum {}{} {{\n", self.name, self.generics_decl()));
				for (i, v) in variants.iter().enumerate() {
					let mut attrs = String::new();
					if v.skip {
						attrs.push_str("#[codec(skip)] ");
					}
					if let Some(k) = v.index_attr {
						// the literal is written in varying styles (all are the same integer to Rust and to the derive)
						let lit = match (k as usize + i) % 5 {
							1 => format!("0x{k:x}"),
							2 if k >= 10 => {
								let d = k.to_string();
								format!("{}_{}", &d[..1], &d[1..])
							},
							3 => format!("{k}{}", if k <= 255 { "u8" } else { "u16" }),
							4 => format!("0b{k:b}"),
							_ => k.to_string(),
						};
						attrs.push_str(&format!("#[codec(index = {lit})] "));
					}
					let body = if v.fields.is_empty() { String::new() } else { fields_src(&v.fields, v.tuple, false) };
					let discr = v.discriminant.map(|d| format!(" = {d}")).unwrap_or_default();
					s.push_str(&format!("\t{attrs}V{i}{body}{discr},\n"));
				}
				s.push_str("}\n");
			},
			Body::Union => {
				s.push_str(&format!("pub union {} {{ a: u8, b: u16 }}\n", self.name));
			},
		}
		s
	}

	fn field_model(f: &FieldDef) -> String {
		let ty = &f.ty;
		match &f.mode {
			Mode::Plain => format!("Field {{ ty: <{ty} as Modeled>::ty(), skip: false }}"),
			Mode::Skip => format!("Field {{ ty: <{ty} as Modeled>::ty(), skip: true }}"),
			Mode::Compact => format!("Field {{ ty: <{ty} as CompactModel>::compact_ty(), skip: false }}"),
			Mode::EncodedAs(_, wire) => format!("Field {{ ty: <{wire} as Modeled>::ty(), skip: false }}"),
		}
	}

	/// `impl Modeled` derived from the definition: declaration-order concatenation of the
	/// non-skipped fields in their selected representation; enum index = attribute, else
	/// discriminant, else position among non-skipped variants.
	pub fn modeled_impl(&self) -> String {
		let name = &self.name;
		let gd = if self.generics.is_empty() {
			String::new()
		} else {
			format!("<{}>", self.generics.iter().map(|g| format!("{g}: Modeled")).collect::<Vec<_>>().join(", "))
		};
		let ga = self.generics_decl();
		let mut s = format!("impl{gd} Modeled for {name}{ga} {{\n");
		match &self.body {
			Body::Struct { fields, tuple } => {
				s.push_str(&format!(
					"\tfn ty() -> Ty {{ Ty::Struct {{ name: \"{name}\".into(), fields: vec![{}] }} }}\n",
					fields.iter().map(Self::field_model).collect::<Vec<_>>().join(", ")
				));
				let fname = |i: usize| if *tuple { format!("{i}") } else { format!("f{i}") };
				s.push_str("\t#[allow(unused_variables)]\n\tfn from_val(v: &Val) -> Self {\n\t\tlet xs = v.as_tuple();\n");
				s.push_str(&format!(
					"\t\t{name} {{ {} }}\n\t}}\n",
					fields
						.iter()
						.enumerate()
						.map(|(i, f)| format!("{}: <{} as Modeled>::from_val(&xs[{i}])", fname(i), f.ty))
						.collect::<Vec<_>>()
						.join(", ")
				));
				s.push_str(&format!(
					"\tfn to_val(&self) -> Val {{ Val::Tuple(vec![{}]) }}\n",
					fields.iter().enumerate().map(|(i, _)| format!("Modeled::to_val(&self.{})", fname(i))).collect::<Vec<_>>().join(", ")
				));
			},
			Body::Enum { variants } => {
				let idx = codec_indices(self);
				s.push_str(&format!("\tfn ty() -> Ty {{ Ty::Enum {{ name: \"{name}\".into(), variants: vec![\n"));
				for (vi, v) in variants.iter().enumerate() {
					let index = match idx.iter().find(|(p, _)| *p == vi) {
						Some((_, i)) => format!("Some({}u8)", i),
						None => "None".to_string(),
					};
					s.push_str(&format!(
						"\t\tVariant {{ name: \"V{vi}\".into(), index: {index}, fields: vec![{}] }},\n",
						v.fields.iter().map(Self::field_model).collect::<Vec<_>>().join(", ")
					));
				}
				s.push_str("\t] } }\n");
				s.push_str("\t#[allow(unused_variables, unreachable_code)]\n\tfn from_val(v: &Val) -> Self {\n\t\tlet (i, xs) = match v { Val::Variant(i, xs) => (*i, xs), o => panic!(\"model: variant expected, got {}\", o.brief(60)) };\n\t\tmatch i {\n");
				for (vi, v) in variants.iter().enumerate() {
					let fname = |i: usize| if v.tuple { format!("{i}") } else { format!("f{i}") };
					s.push_str(&format!(
						"\t\t\t{vi} => {name}::V{vi} {{ {} }},\n",
						v.fields
							.iter()
							.enumerate()
							.map(|(i, f)| format!("{}: <{} as Modeled>::from_val(&xs[{i}])", fname(i), f.ty))
							.collect::<Vec<_>>()
							.join(", ")
					));
				}
				s.push_str("\t\t\t_ => panic!(\"model: variant position out of range\"),\n\t\t}\n\t}\n");
				s.push_str("\t#[allow(unused_variables, unreachable_code)]\n\tfn to_val(&self) -> Val {\n\t\tmatch self {\n");
				for (vi, v) in variants.iter().enumerate() {
					let fname = |i: usize| if v.tuple { format!("{i}") } else { format!("f{i}") };
					s.push_str(&format!(
						"\t\t\t{name}::V{vi} {{ {} }} => Val::Variant({vi}, vec![{}]),\n",
						v.fields.iter().enumerate().map(|(i, _)| format!("{}: ref b{i}", fname(i))).collect::<Vec<_>>().join(", "),
						v.fields.iter().enumerate().map(|(i, _)| format!("Modeled::to_val(b{i})")).collect::<Vec<_>>().join(", ")
					));
				}
				if variants.is_empty() {
					s.push_str("\t\t\t_ => unreachable!(),\n");
				}
				s.push_str("\t\t}\n\t}\n");
			},
			Body::Union => {},
		}
		s.push_str("}\n");
		s
	}

	/// Normalised text (distinctness key).
	pub fn normalised(&self) -> String {
		self.source(false).replace(&self.name, "D")
	}

	pub fn is_all_skipped_enum(&self) -> bool {
		matches!(&self.body, Body::Enum { variants } if !variants.is_empty() && variants.iter().all(|v| v.skip))
	}

	pub fn has_encodable_value(&self) -> bool {
		match &self.body {
			Body::Enum { variants } => !variants.is_empty(),
			_ => true,
		}
	}

	pub fn feature_labels(&self) -> Vec<String> {
		let mut l = vec![];
		let mut fields: Vec<&FieldDef> = vec![];
		match &self.body {
			Body::Struct { fields: f, tuple } => {
				l.push(if f.is_empty() { "unit-struct" } else if *tuple { "tuple-struct" } else { "named-struct" }.to_string());
				fields.extend(f.iter());
				if f.iter().filter(|x| x.mode != Mode::Skip).count() == 1 {
					l.push("single-non-skipped-field".into());
				}
			},
			Body::Enum { variants } => {
				l.push("enum".into());
				if variants.is_empty() {
					l.push("empty-enum".into());
				}
				if variants.len() >= 255 {
					l.push("enum>=255-variants".into());
				}
				if self.is_all_skipped_enum() {
					l.push("all-variants-skipped".into());
				}
				if variants.iter().any(|v| v.skip) {
					l.push("skipped-variant".into());
				}
				if variants.iter().any(|v| v.index_attr.is_some()) {
					l.push("index-attribute".into());
				}
				if variants.iter().any(|v| v.discriminant.is_some()) {
					l.push("explicit-discriminant".into());
				}
				for v in variants {
					fields.extend(v.fields.iter());
				}
			},
			Body::Union => l.push("union".into()),
		}
		for (m, name) in [(Mode::Skip, "skip-field"), (Mode::Compact, "compact-field")] {
			if fields.iter().any(|f| f.mode == m) {
				l.push(name.into());
			}
		}
		if fields.iter().any(|f| matches!(f.mode, Mode::EncodedAs(..))) {
			l.push("encoded_as-field".into());
		}
		if fields.iter().any(|f| CW_TYPES.contains(&f.ty.as_str())) {
			l.push("CompactAs-wrapper-field".into());
		}
		if !self.generics.is_empty() {
			l.push("generic".into());
		}
		if self.transparent {
			l.push("repr(transparent)".into());
		}
		if self.mel_bound {
			l.push("mel_bound".into());
		}
		if self.dumb_trait_bound {
			l.push("dumb_trait_bound".into());
		}
		if self.derive_mel {
			l.push("derive(MaxEncodedLen)".into());
		}
		l
	}

	pub fn index_source_count(&self) -> usize {
		match &self.body {
			Body::Enum { variants } => {
				let mut n = 0;
				if variants.iter().any(|v| !v.skip && v.index_attr.is_some()) {
					n += 1;
				}
				if variants.iter().any(|v| !v.skip && v.index_attr.is_none() && v.discriminant.is_some()) {
					n += 1;
				}
				if variants.iter().any(|v| !v.skip && v.index_attr.is_none() && v.discriminant.is_none()) {
					n += 1;
				}
				n
			},
			_ => 0,
		}
	}
}

// ---------------------------------------------------------------------------------------------
// C17: enums over {index attribute, discriminant, implicit} x skip, indices in 0..=300

pub fn gen_c17_enum(g: &mut Gen, name: &str) -> Def {
	let special = g.below(12);
	let n = match special {
		0 => 255,
		1 => 256,
		2 => 257,
		_ => 1 + g.below(8),
	};
	let extra_skipped = special <= 2 && g.bool();
	let pool: [u32; 14] = [0, 1, 2, 3, 4, 5, 7, 8, 254, 255, 256, 257, 300, 128];
	let mut variants = vec![];
	let mut used_rust: Vec<i64> = vec![];
	let mut next_rust: i64 = 0;
	for i in 0..n {
		let mut v = VarDef { index_attr: None, discriminant: None, skip: false, fields: vec![], tuple: false };
		if n <= 8 {
			match g.below(5) {
				0 | 1 => v.index_attr = Some(if g.chance(96) { *g.pick(&pool) } else { g.below(8) as u32 }),
				2 => {
					let mut k = i64::from(if g.chance(96) { *g.pick(&pool) } else { g.below(8) as u32 });
					// Rust requires distinct discriminants: keep the verdict the codec's, not E0081
					while used_rust.contains(&k) {
						k += 1;
					}
					if k <= 300 {
						v.discriminant = Some(k as u32);
						next_rust = k;
					}
				},
				_ => {},
			}
			if g.chance(40) {
				v.skip = true;
			}
			if v.discriminant.is_none() {
				let mut k = next_rust;
				if used_rust.contains(&k) {
					while used_rust.contains(&k) {
						k += 1;
					}
					v.discriminant = Some(k as u32);
				}
				next_rust = k;
			}
			used_rust.push(next_rust);
			next_rust += 1;
		} else if i == n - 1 && g.chance(64) {
			// one explicit index at the end of a large enum
			v.index_attr = Some(*g.pick(&[0u32, 254, 255, 256]));
		}
		variants.push(v);
	}
	if extra_skipped {
		for _ in 0..1 + g.below(3) {
			let at = g.below(variants.len() + 1);
			variants.insert(at, VarDef { index_attr: None, discriminant: None, skip: true, fields: vec![], tuple: false });
		}
	}
	Def {
		name: name.to_string(),
		body: Body::Enum { variants },
		generics: vec![],
		inst: vec![],
		transparent: false,
		repr_int: None,
		derive_mel: false,
		derive_compact_as: false,
		dumb_trait_bound: false,
		mel_bound: false,
	}
}

/// A minimally different valid twin of an invalid enum: colliding / too-large indices moved to
/// free ones by explicit attributes; surplus variants skipped.
pub fn valid_twin(def: &Def) -> Def {
	let mut t = def.clone();
	t.derive_compact_as = false;
	match &mut t.body {
		Body::Union => {
			t.body = Body::Struct { fields: vec![FieldDef { ty: "u8".into(), mode: Mode::Plain, extra_attrs: vec![] }], tuple: false };
		},
		Body::Struct { fields, .. } =>
			for f in fields.iter_mut() {
				f.extra_attrs.clear();
			},
		Body::Enum { variants } => {
			for v in variants.iter_mut() {
				for f in v.fields.iter_mut() {
					f.extra_attrs.clear();
				}
			}
			// skip surplus variants
			let mut live = variants.iter().filter(|v| !v.skip).count();
			for v in variants.iter_mut().rev() {
				if live > 256 && !v.skip {
					v.skip = true;
					live -= 1;
				}
			}
		},
	}
	for _ in 0..600 {
		let idx = codec_indices(&t);
		let mut bad: Option<usize> = None;
		let mut seen: Vec<u32> = vec![];
		for (vi, i) in &idx {
			if *i > 255 || seen.contains(i) {
				bad = Some(*vi);
				break;
			}
			seen.push(*i);
		}
		let Some(vi) = bad else { break };
		let all: Vec<u32> = idx.iter().map(|(_, i)| *i).collect();
		let mut k = 0u32;
		while all.contains(&k) {
			k += 1;
		}
		if let Body::Enum { variants } = &mut t.body {
			variants[vi].index_attr = Some(k);
		}
	}
	t
}

/// The finite set of attribute-conflict / union / CompactAs-shape programs.
pub fn c17_fixed_set() -> Vec<Def> {
	let base = |name: &str, body: Body| Def {
		name: name.to_string(),
		body,
		generics: vec![],
		inst: vec![],
		transparent: false,
		repr_int: None,
		derive_mel: false,
		derive_compact_as: false,
		dumb_trait_bound: false,
		mel_bound: false,
	};
	let f = |ty: &str, mode: Mode, extra: &[&str]| FieldDef { ty: ty.into(), mode, extra_attrs: extra.iter().map(|s| s.to_string()).collect() };
	let mut v = vec![];
	let conflicts: Vec<(Mode, Vec<&str>)> = vec![
		(Mode::Skip, vec!["#[codec(compact)]"]),
		(Mode::Compact, vec!["#[codec(skip)]"]),
		(Mode::Skip, vec!["#[codec(encoded_as = \"Compact<u32>\")]"]),
		(Mode::EncodedAs("Compact<u32>".into(), "Compact<u32>".into()), vec!["#[codec(skip)]"]),
		(Mode::Compact, vec!["#[codec(encoded_as = \"Compact<u32>\")]"]),
		(Mode::EncodedAs("Compact<u32>".into(), "Compact<u32>".into()), vec!["#[codec(compact)]"]),
		(Mode::Skip, vec!["#[codec(compact)]", "#[codec(encoded_as = \"Compact<u32>\")]"]),
		(Mode::Plain, vec!["#[codec(skip, compact)]"]),
		(Mode::Plain, vec!["#[codec(compact, encoded_as = \"Compact<u32>\")]"]),
	];
	for (i, (mode, extra)) in conflicts.iter().enumerate() {
		// in a struct with a second field (so the single-field forwarding path is not taken) ...
		v.push(base(
			&format!("ConfS{i}"),
			Body::Struct { fields: vec![f("u32", mode.clone(), extra), f("u8", Mode::Plain, &[])], tuple: false },
		));
		// ... as the only field (forwarding path) ...
		v.push(base(&format!("ConfF{i}"), Body::Struct { fields: vec![f("u32", mode.clone(), extra)], tuple: true }));
		// ... and inside an enum variant
		v.push(base(
			&format!("ConfE{i}"),
			Body::Enum {
				variants: vec![
					VarDef { index_attr: None, discriminant: None, skip: false, fields: vec![f("u32", mode.clone(), extra), f("u8", Mode::Plain, &[])], tuple: false },
					VarDef { index_attr: None, discriminant: None, skip: false, fields: vec![], tuple: false },
				],
			},
		));
	}
	for (i, a) in MALFORMED_FIELD_ATTRS.iter().enumerate() {
		v.push(base(&format!("MalS{i}"), Body::Struct { fields: vec![f("u32", Mode::Plain, &[a]), f("u8", Mode::Plain, &[])], tuple: false }));
		v.push(base(&format!("MalF{i}"), Body::Struct { fields: vec![f("u32", Mode::Plain, &[a])], tuple: true }));
		v.push(base(
			&format!("MalE{i}"),
			Body::Enum {
				variants: vec![
					VarDef { index_attr: None, discriminant: None, skip: false, fields: vec![f("u32", Mode::Plain, &[a]), f("u8", Mode::Plain, &[])], tuple: true },
					VarDef { index_attr: None, discriminant: None, skip: false, fields: vec![], tuple: false },
				],
			},
		));
	}
	v.push(base("Uni", Body::Union));
	// CompactAs shapes
	let mut ca = |name: &str, body: Body| {
		let mut d = base(name, body);
		d.derive_compact_as = true;
		v.push(d);
	};
	ca("CaEnum", Body::Enum { variants: vec![VarDef { index_attr: None, discriminant: None, skip: false, fields: vec![], tuple: false }] });
	ca("CaZero", Body::Struct { fields: vec![], tuple: false });
	ca("CaZeroSkipped", Body::Struct { fields: vec![f("u32", Mode::Skip, &[])], tuple: true });
	ca("CaTwo", Body::Struct { fields: vec![f("u32", Mode::Plain, &[]), f("u8", Mode::Plain, &[])], tuple: true });
	ca("CaOne", Body::Struct { fields: vec![f("u32", Mode::Plain, &[])], tuple: true });
	ca("CaOneNamedSkip", Body::Struct { fields: vec![f("u64", Mode::Plain, &[]), f("PhantomData<u8>", Mode::Skip, &[])], tuple: false });
	v
}
