//! C19 — the counting input reports exactly the bytes delivered.

use crate::common::*;
use parity_scale_codec::{CountedInput, Input};
use psc_bridge::{input::*, zoo::Entry};
use psc_model::{
	dec::{ref_decode, ref_decode_ex},
	gen::Gen,
	mutate::gen_input,
	runner::{guard, CheckFn},
	serde_json::json,
	stats::*,
};
use std::cell::RefCell;

pub fn check_slice(e: &Entry, bytes: &[u8], family: &str, stats: &mut Stats) -> Result<(), Violation> {
	let (reference, giant) = ref_decode_ex(&e.ty, bytes);
	if giant > crate::c03::GIANT_ZW_CAP {
		stats.exclude("zero-width-elements-giant-count");
		return Ok(());
	}
	let (ok, count, consumed) = guard(|| (e.counted.unwrap())(bytes))
		.map_err(|p| Violation::new(format!("C19/panic/{}", e.ty.family()), format!("type {}: {p}", e.name)))?;
	stats.eval();
	stats.class("counted-over-slice");
	stats.class(if ok { "outcome:ok" } else { "outcome:err" });
	stats.class(&format!("input:{family}"));
	if !ok && count > 0 {
		stats.class("failing decode that had delivered bytes");
		stats.nontrivial(&(e.name, bytes));
	}
	stats.sample(|| json!({"type": e.name, "bytes": hex(bytes), "ok": ok, "count": count, "slice_consumed": consumed}));
	if count != consumed as u64 {
		return Err(Violation::new(
			format!("C19/count-vs-consumed/{}", if ok { "ok" } else { "err" }),
			format!(
				"type {}: CountedInput::count() = {count} but the wrapped slice delivered {consumed} bytes (decode {})\nbytes {}",
				e.name,
				if ok { "succeeded" } else { "failed" },
				hex(bytes)
			),
		));
	}
	// the same through `Decode::skip`, which may take bulk paths of its own
	let (sok, scount, sconsumed) = guard(|| (e.counted_skip.unwrap())(bytes))
		.map_err(|p| Violation::new(format!("C19/panic/{}", e.ty.family()), format!("type {}: skip: {p}", e.name)))?;
	stats.class(if sok { "skip-outcome:ok" } else { "skip-outcome:err" });
	if scount != sconsumed as u64 {
		return Err(Violation::new(
			format!("C19/skip-count-vs-consumed/{}", if sok { "ok" } else { "err" }),
			format!(
				"type {}: after Decode::skip through CountedInput, count() = {scount} but the wrapped slice delivered {sconsumed} bytes (skip {})\nbytes {}",
				e.name,
				if sok { "succeeded" } else { "failed" },
				hex(bytes)
			),
		));
	}
	if ok {
		if let Ok((_, used)) = reference {
			if used as u64 != count {
				return Err(Violation::new(
					"C19/count-vs-encoded-length",
					format!("type {}: count() = {count} after a successful decode, encoded length is {used}\nbytes {}", e.name, hex(bytes)),
				));
			}
		}
	}
	Ok(())
}

/// CountedInput at any place of a wrapper stack over a logging base input.
pub fn check_stack(e: &Entry, bytes: &[u8], stack: &[Wrap], known: bool, stats: &mut Stats) -> Result<(), Violation> {
	let (_, giant) = ref_decode_ex(&e.ty, bytes);
	if giant > crate::c03::GIANT_ZW_CAP {
		stats.exclude("zero-width-elements-giant-count");
		return Ok(());
	}
	let run = || {
		let mut li = LogInput::new(bytes, known);
		let report = RefCell::new(StackReport::default());
		let dd = e.decode_dyn.unwrap();
		let mut ok = false;
		let _ = with_stack(&mut li, stack, &report, &mut |inner| match dd(inner) {
			Ok(_) => {
				ok = true;
				Ok(())
			},
			Err(_) => Err("inner decode failed".into()),
		});
		(ok, report.into_inner(), li.delivered)
	};
	let (ok, rep, delivered) =
		guard(run).map_err(|p| Violation::new(format!("C19/panic/{}", e.ty.family()), format!("type {}: {p}", e.name)))?;
	stats.eval();
	stats.class(&format!("counted-in-stack-depth-{}", stack.len()));
	if !ok && delivered > 0 {
		stats.nontrivial(&(e.name, bytes, stack));
	}
	for (i, c) in rep.counted.iter().enumerate() {
		if *c != delivered {
			return Err(Violation::new(
				format!("C19/count-vs-delivered/{}", if ok { "ok" } else { "err" }),
				format!(
					"type {}: CountedInput #{i} in stack {:?} reports {c}, the base input successfully served {delivered} bytes (decode {})\nbytes {}",
					e.name,
					stack.iter().map(|w| w.label()).collect::<Vec<_>>(),
					if ok { "succeeded" } else { "failed" },
					hex(bytes)
				),
			));
		}
	}
	Ok(())
}

/// Saturation, through the cfg-guarded hook that starts the counter near u64::MAX.
pub fn check_saturation(g: &mut Gen, stats: &mut Stats) -> Result<(), Violation> {
	let k = g.below(40) as u64;
	let start = u64::MAX - k;
	let data = vec![7u8; 64];
	let mut input = &data[..];
	let mut c = CountedInput::__verif_with_count(&mut input, start);
	let mut model: u64 = start;
	let n = 1 + g.below(12);
	let mut ops = vec![];
	for _ in 0..n {
		let before = c.count();
		match g.below(3) {
			0 => {
				let r = c.read_byte();
				if r.is_ok() {
					model = model.saturating_add(1);
				}
				ops.push(format!("read_byte->{}", r.is_ok()));
			},
			1 => {
				let len = g.below(9);
				let mut buf = vec![0u8; len];
				let r = c.read(&mut buf);
				if r.is_ok() {
					model = model.saturating_add(len as u64);
				}
				ops.push(format!("read({len})->{}", r.is_ok()));
			},
			_ => {
				// a read that must fail: more than what is left
				let mut buf = vec![0u8; 100];
				let r = c.read(&mut buf);
				ops.push(format!("read(100)->{}", r.is_ok()));
				if r.is_ok() {
					model = model.saturating_add(100);
				}
			},
		}
		let got = c.count();
		if got != model {
			return Err(Violation::new(
				"C19/saturation",
				format!("start {start} (= u64::MAX - {k}), ops {ops:?}: count() went {before} -> {got}, expected {model}"),
			));
		}
	}
	stats.eval();
	stats.class("saturation-sequences");
	if model == u64::MAX {
		stats.class("saturation reached");
		stats.nontrivial(&(k, &ops));
	}
	stats.sample(|| json!({"relation": "count saturates", "start": format!("u64::MAX-{k}"), "ops": ops}));
	Ok(())
}

pub fn tape_checks(ctx: &Ctx) -> Vec<(&'static str, Box<CheckFn<'_>>)> {
	let decs = crate::c03::decodable(&ctx.zoo);
	let decs2 = decs.clone();
	let stacks: Vec<Vec<Wrap>> = all_stacks().into_iter().filter(|s| s.contains(&Wrap::Counted)).collect();
	vec![
		(
			"slice",
			Box::new(move |g: &mut Gen, stats: &mut Stats| {
				let e = pick_entry(g, &decs);
				let (mut bytes, family) = gen_input(&e.ty, g, 128);
				if e.is_recursive() && bytes.len() > 256 {
					bytes.truncate(256);
				}
				check_slice(e, &bytes, family, stats)
			}),
		),
		(
			"stack",
			Box::new(move |g: &mut Gen, stats: &mut Stats| {
				let e = pick_entry(g, &decs2);
				let (mut bytes, _) = gen_input(&e.ty, g, 128);
				if e.is_recursive() && bytes.len() > 256 {
					bytes.truncate(256);
				}
				let stack = g.pick(&stacks).clone();
				let known = g.bool();
				check_stack(e, &bytes, &stack, known, stats)
			}),
		),
		("saturation", Box::new(check_saturation)),
	]
}

pub fn run(ctx: &Ctx) -> (Level, Report) {
	let mut report = Report::default();
	let _ = ref_decode; // (kept for replay tooling)
	for (name, check) in tape_checks(ctx) {
		let quick = match name {
			"saturation" => 20_000,
			_ => 120_000,
		};
		let out = ctx.random(name, quick, 20, 1024, &*check);
		report.absorb(name, out);
	}
	(
		Level {
			level: "exploration",
			rule: "(decodable zoo type, byte string from the C03 families): decode and Decode::skip through CountedInput over a slice, count() == bytes the slice \
delivered, on success and on failure, and == the reference encoded length on success; CountedInput at every position of every wrapper stack \
containing it, over a hand-written logging input that sums the reads it successfully served; saturation: generated read sequences starting at \
u64::MAX-k through the cfg-guarded constructor, compared with min(u64::MAX, start + delivered). Non-trivial = failing decode that had \
already delivered >= 1 byte, or a sequence that reaches saturation.",
			assumptions: vec!["hook __verif_with_count only sets the initial counter"],
		},
		report,
	)
}
