//! psc-model: independent SCALE reference model, generators, evidence accounting and drivers.
pub mod dec;
pub mod enc;
pub mod gen;
pub mod golden;
pub mod mutate;
pub mod runner;
pub mod stats;
pub mod ty;
pub mod valgen;

pub use serde_json;

#[cfg(test)]
mod tests {
	#[test]
	fn golden_self_test() {
		let bad = crate::golden::self_test();
		assert!(bad.is_empty(), "{bad:#?}");
	}
}
