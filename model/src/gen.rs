//! The tape: every random choice of every generator is read from a byte string.
//!
//! A zero byte always maps to the "simplest" choice, so shrinking the tape (truncating it,
//! deleting blocks, zeroing blocks, lowering bytes) shrinks the generated case. When the tape
//! is exhausted every further draw returns zero.

#[derive(Clone)]
pub struct Gen<'a> {
	tape: &'a [u8],
	pos: usize,
}

impl<'a> Gen<'a> {
	pub fn new(tape: &'a [u8]) -> Self {
		Gen { tape, pos: 0 }
	}

	pub fn tape(&self) -> &'a [u8] {
		self.tape
	}

	pub fn consumed(&self) -> usize {
		self.pos
	}

	pub fn exhausted(&self) -> bool {
		self.pos >= self.tape.len()
	}

	pub fn u8(&mut self) -> u8 {
		let b = self.tape.get(self.pos).copied().unwrap_or(0);
		self.pos = self.pos.saturating_add(1);
		b
	}

	pub fn u16(&mut self) -> u16 {
		u16::from(self.u8()) | (u16::from(self.u8()) << 8)
	}

	pub fn u32(&mut self) -> u32 {
		u32::from(self.u16()) | (u32::from(self.u16()) << 16)
	}

	pub fn u64(&mut self) -> u64 {
		u64::from(self.u32()) | (u64::from(self.u32()) << 32)
	}

	pub fn u128(&mut self) -> u128 {
		u128::from(self.u64()) | (u128::from(self.u64()) << 64)
	}

	/// Uniform-ish value in `0..n` (monotone in the tape bytes, so lowering bytes lowers the value).
	pub fn below(&mut self, n: usize) -> usize {
		if n <= 1 {
			return 0;
		}
		if n <= 256 {
			(usize::from(self.u8()) * n) >> 8
		} else if n <= 65536 {
			(usize::from(self.u16()) * n) >> 16
		} else {
			((u128::from(self.u64()) * n as u128) >> 64) as usize
		}
	}

	/// Inclusive range.
	pub fn range(&mut self, lo: usize, hi: usize) -> usize {
		debug_assert!(lo <= hi);
		lo + self.below(hi - lo + 1)
	}

	pub fn bool(&mut self) -> bool {
		self.u8() & 1 == 1
	}

	/// True with probability about `num/256`.
	pub fn chance(&mut self, num: u32) -> bool {
		u32::from(self.u8()) >= 256 - num.min(256)
	}

	pub fn pick<'b, T>(&mut self, items: &'b [T]) -> &'b T {
		&items[self.below(items.len())]
	}

	pub fn bytes(&mut self, n: usize) -> Vec<u8> {
		(0..n).map(|_| self.u8()).collect()
	}

	/// A cheap PRNG stream whose seed is read from the tape: bulk payload (long sequences) is a
	/// pure function of the tape without making the tape long.
	pub fn stream(&mut self) -> Stream {
		Stream(self.u64())
	}
}

/// splitmix64; seed 0 produces the all-zero stream so that a zeroed tape gives zero payload.
pub struct Stream(u64);

impl Stream {
	pub fn from_seed(seed: u64) -> Self {
		Stream(seed)
	}
	pub fn next(&mut self) -> u64 {
		if self.0 == 0 {
			return 0;
		}
		self.0 = self.0.wrapping_add(0x9E37_79B9_7F4A_7C15);
		let mut z = self.0;
		z = (z ^ (z >> 30)).wrapping_mul(0xBF58_476D_1CE4_E5B9);
		z = (z ^ (z >> 27)).wrapping_mul(0x94D0_49BB_1331_11EB);
		z ^ (z >> 31)
	}
	pub fn fill(&mut self, out: &mut [u8]) {
		for chunk in out.chunks_mut(8) {
			let v = self.next().to_le_bytes();
			chunk.copy_from_slice(&v[..chunk.len()]);
		}
	}
	pub fn below(&mut self, n: u64) -> u64 {
		if n <= 1 {
			0
		} else {
			((u128::from(self.next()) * u128::from(n)) >> 64) as u64
		}
	}
}

/// A non-tape PRNG for the exhaustive/bulk drivers (seeded from VERIF_SEED and the shard).
pub fn splitmix(seed: u64) -> Stream {
	// never the degenerate zero stream; distinct seeds give distinct streams
	let s = seed ^ 0x5851_F42D_4C95_7F2D;
	Stream(if s == 0 { 0x9E37_79B9_7F4A_7C15 } else { s })
}

/// Boundary-biased unsigned integer of `bits` width.
pub fn biased_uint(g: &mut Gen, bits: u32) -> u128 {
	let max: u128 = if bits == 128 { u128::MAX } else { (1u128 << bits) - 1 };
	let v = match g.below(12) {
		0 => 0,
		1 => u128::from(g.u8() & 0x7f), // small
		2 => g.u128(), // uniform
		3 => max,
		4 => max - u128::from(g.u8() & 3),
		5 => {
			// 2^k + d, d in -2..=2
			let k = g.below(bits as usize) as u32;
			let d = g.below(5) as i32 - 2;
			let base = 1u128 << k;
			if d < 0 {
				base.wrapping_sub((-d) as u128)
			} else {
				base.wrapping_add(d as u128)
			}
		},
		6 => {
			// compact class boundaries
			let b = *g.pick(&[6u32, 14, 30, 32, 40, 48, 56, 64, 72, 80, 88, 96, 104, 112, 120]);
			let d = g.below(5) as i32 - 2;
			let base = if b >= 128 { 0 } else { 1u128 << b };
			if d < 0 {
				base.wrapping_sub((-d) as u128)
			} else {
				base.wrapping_add(d as u128)
			}
		},
		7 => {
			// one non-zero byte lane
			let lane = g.below((bits / 8) as usize) as u32;
			u128::from(g.u8()) << (8 * lane)
		},
		8 => {
			// two non-zero byte lanes
			let l1 = g.below((bits / 8) as usize) as u32;
			let l2 = g.below((bits / 8) as usize) as u32;
			(u128::from(g.u8()) << (8 * l1)) | (u128::from(g.u8()) << (8 * l2))
		},
		9 => u128::from(g.u16()),
		10 => u128::from(g.u32()),
		_ => g.u128() >> g.below(128),
	};
	v & max
}

/// Boundary-biased signed integer of `bits` width (two's complement value, sign-extended).
pub fn biased_sint(g: &mut Gen, bits: u32) -> i128 {
	let raw = match g.below(6) {
		0 => 0u128,
		1 => u128::MAX,                         // -1
		2 => 1u128 << (bits - 1),               // min
		3 => (1u128 << (bits - 1)).wrapping_sub(1), // max
		_ => biased_uint(g, bits),
	};
	sign_extend(raw, bits)
}

pub fn sign_extend(raw: u128, bits: u32) -> i128 {
	if bits == 128 {
		raw as i128
	} else {
		let shift = 128 - bits;
		((raw << shift) as i128) >> shift
	}
}

/// Float bit patterns: zeros, subnormals, infinities, NaNs with payloads, and uniform bits.
pub fn biased_f32(g: &mut Gen) -> u32 {
	match g.below(8) {
		0 => 0,
		1 => 0x8000_0000,
		2 => 0x7f80_0000 | (g.u32() & 0x8000_0000),
		3 => 0x7fc0_0000 | (g.u32() & 0x803f_ffff),
		4 => 0x7f80_0001 | (g.u32() & 0x803f_fffe),
		5 => g.u32() & 0x807f_ffff,
		6 => (1.5f32).to_bits(),
		_ => g.u32(),
	}
}

pub fn biased_f64(g: &mut Gen) -> u64 {
	match g.below(8) {
		0 => 0,
		1 => 0x8000_0000_0000_0000,
		2 => 0x7ff0_0000_0000_0000 | (g.u64() & 0x8000_0000_0000_0000),
		3 => 0x7ff8_0000_0000_0000 | (g.u64() & 0x8007_ffff_ffff_ffff),
		4 => 0x7ff0_0000_0000_0001 | (g.u64() & 0x8007_ffff_ffff_fffe),
		5 => g.u64() & 0x800f_ffff_ffff_ffff,
		6 => (-2.25f64).to_bits(),
		_ => g.u64(),
	}
}

/// Length biased to the boundaries of the compact count prefix and of the 16 KiB preallocation
/// window for an element of `elem_mem` bytes. `cap` bounds the result.
pub fn biased_len(g: &mut Gen, elem_mem: usize, cap: usize) -> usize {
	let c = if elem_mem == 0 { 16384 } else { (16384 / elem_mem).max(1) };
	let v = match g.below(16) {
		0 => 0,
		1 => 1,
		2 => 2,
		3..=6 => g.below(9),
		7 => *g.pick(&[63usize, 64, 65]),
		8 => g.below(70),
		9 => match g.below(3) {
			0 => c - 1,
			1 => c,
			_ => c + 1,
		},
		10 => match g.below(3) {
			0 => 2 * c - 1,
			1 => 2 * c,
			_ => 2 * c + 1,
		},
		11 => 3 * c + 1,
		12 => *g.pick(&[16383usize, 16384, 16385]),
		13 => g.below(300),
		14 => c + g.below(c),
		_ => g.below(20),
	};
	v.min(cap)
}
