//! Reference SCALE decoder: the inverse of `enc`, rejecting exactly what the specification and
//! property C03 list, and accepting what they do not forbid (unsorted/duplicate map entries,
//! non-zero padding bits, any float bit pattern, ranges with start > end).

use crate::{enc::compact_bytes, gen::sign_extend, ty::*};

#[derive(Clone, Copy, Debug, PartialEq, Eq, Hash, PartialOrd, Ord)]
pub enum Rej {
	Eof,
	BadTag,
	BadVariant,
	BadUtf8,
	ZeroNonZero,
	Nanos,
	CompactNonCanonical,
	CompactTooWide,
	BitsTooLong,
}

impl Rej {
	pub fn label(self) -> &'static str {
		match self {
			Rej::Eof => "eof/count-exceeds-data",
			Rej::BadTag => "bad-tag",
			Rej::BadVariant => "unknown-variant",
			Rej::BadUtf8 => "invalid-utf8",
			Rej::ZeroNonZero => "zero-nonzero",
			Rej::Nanos => "nanos>=1e9",
			Rej::CompactNonCanonical => "compact-non-minimal",
			Rej::CompactTooWide => "compact-over-wide",
			Rej::BitsTooLong => "bits>2^29-1",
		}
	}
}

pub struct Dec<'a> {
	pub data: &'a [u8],
	pub pos: usize,
	/// largest claimed count of zero-width elements that is expensive for a real decoder to
	/// honour (anything but a vector-like of exactly `()`): lets callers skip such inputs
	pub giant_zw: u64,
	cheap_kind: bool,
}

pub const MAX_BITS: u64 = (1 << 29) - 1;

/// Parse a compact integer for target width `bits`: accept iff the bytes begin with the canonical
/// (shortest) form of a value that fits.
pub fn dec_compact(data: &[u8], bits: u32) -> Result<(u128, usize), Rej> {
	let first = *data.first().ok_or(Rej::Eof)?;
	let (value, used): (u128, usize) = match first & 3 {
		0 => (u128::from(first >> 2), 1),
		1 => {
			if data.len() < 2 {
				return Err(Rej::Eof);
			}
			(u128::from(u16::from_le_bytes([data[0], data[1]]) >> 2), 2)
		},
		2 => {
			if data.len() < 4 {
				return Err(Rej::Eof);
			}
			(u128::from(u32::from_le_bytes([data[0], data[1], data[2], data[3]]) >> 2), 4)
		},
		_ => {
			let n = usize::from(first >> 2) + 4;
			// A length tag no value of this width can need is over-wide whatever follows.
			if n > (bits as usize / 8).max(4) {
				return Err(Rej::CompactTooWide);
			}
			if data.len() < 1 + n {
				return Err(Rej::Eof);
			}
			let mut raw = [0u8; 16];
			raw[..n].copy_from_slice(&data[1..1 + n]);
			(u128::from_le_bytes(raw), 1 + n)
		},
	};
	if bits < 128 && value >> bits != 0 {
		return Err(Rej::CompactTooWide);
	}
	if compact_bytes(value).len() != used {
		return Err(Rej::CompactNonCanonical);
	}
	Ok((value, used))
}

impl<'a> Dec<'a> {
	fn take(&mut self, n: usize) -> Result<&'a [u8], Rej> {
		if self.data.len() - self.pos < n {
			return Err(Rej::Eof);
		}
		let s = &self.data[self.pos..self.pos + n];
		self.pos += n;
		Ok(s)
	}

	fn byte(&mut self) -> Result<u8, Rej> {
		Ok(self.take(1)?[0])
	}

	fn uint(&mut self, bits: u32) -> Result<u128, Rej> {
		let s = self.take((bits / 8) as usize)?;
		let mut raw = [0u8; 16];
		raw[..s.len()].copy_from_slice(s);
		Ok(u128::from_le_bytes(raw))
	}

	fn compact(&mut self, bits: u32) -> Result<u128, Rej> {
		let (v, used) = dec_compact(&self.data[self.pos..], bits)?;
		self.pos += used;
		Ok(v)
	}

	fn remaining(&self) -> usize {
		self.data.len() - self.pos
	}

	fn fields(&mut self, fields: &[Field]) -> Result<Vec<Val>, Rej> {
		let mut out = Vec::with_capacity(fields.len());
		for f in fields {
			if f.skip {
				out.push(f.ty.default_val());
			} else {
				out.push(self.val(&f.ty)?);
			}
		}
		Ok(out)
	}

	/// `n` elements of `elem`.
	fn elems(&mut self, elem: &Ty, n: u64) -> Result<Val, Rej> {
		if elem.zero_width() {
			// every claimed count is honestly backed: nothing to read
			if *elem != Ty::Unit || !self.cheap_kind {
				self.giant_zw = self.giant_zw.max(n);
			}
			let v = if n > 0 { self.val(elem)? } else { elem.default_val() };
			return Ok(Val::Repeat(n, Box::new(v)));
		}
		let min = elem.min_len().max(1) as u64;
		if n.saturating_mul(min) > self.remaining() as u64 {
			// "any count that promises more data than is present"
			// (consume what a streaming decoder could: irrelevant, the result is a rejection)
			return Err(Rej::Eof);
		}
		if *elem == Ty::U(8) {
			return Ok(Val::Bytes(self.take(n as usize)?.to_vec()));
		}
		let mut items = Vec::with_capacity(n as usize);
		for _ in 0..n {
			items.push(self.val(elem)?);
		}
		Ok(Val::Seq(items))
	}

	pub fn val(&mut self, ty: &Ty) -> Result<Val, Rej> {
		Ok(match ty {
			Ty::Ref(n) => {
				let t = lookup(n);
				return self.val(&t);
			},
			Ty::U(b) => Val::U(self.uint(*b)?),
			Ty::I(b) => Val::I(sign_extend(self.uint(*b)?, *b)),
			Ty::NzU(b) => {
				let x = self.uint(*b)?;
				if x == 0 {
					return Err(Rej::ZeroNonZero);
				}
				Val::U(x)
			},
			Ty::NzI(b) => {
				let x = self.uint(*b)?;
				if x == 0 {
					return Err(Rej::ZeroNonZero);
				}
				Val::I(sign_extend(x, *b))
			},
			Ty::F32 => Val::F32(self.uint(32)? as u32),
			Ty::F64 => Val::F64(self.uint(64)? as u64),
			Ty::Bool => match self.byte()? {
				0 => Val::Bool(false),
				1 => Val::Bool(true),
				_ => return Err(Rej::BadTag),
			},
			Ty::Unit | Ty::Phantom | Ty::CompactUnit => Val::Unit,
			Ty::Compact(b) => Val::U(self.compact(*b)?),
			Ty::Option(t) => match self.byte()? {
				0 => Val::Opt(None),
				1 => Val::some(self.val(t)?),
				_ => return Err(Rej::BadTag),
			},
			Ty::Result(a, b) => match self.byte()? {
				0 => Val::ok(self.val(a)?),
				1 => Val::err(self.val(b)?),
				_ => return Err(Rej::BadTag),
			},
			Ty::OptionBool => match self.byte()? {
				0 => Val::OptBool(None),
				1 => Val::OptBool(Some(true)),
				2 => Val::OptBool(Some(false)),
				_ => return Err(Rej::BadTag),
			},
			Ty::Seq { kind, elem, .. } => {
				let n = self.compact(32)? as u64;
				let saved = self.cheap_kind;
				self.cheap_kind = matches!(kind, SeqKind::Vec | SeqKind::VecDeque | SeqKind::BinaryHeap | SeqKind::Slice);
				let v = self.elems(elem, n);
				self.cheap_kind = saved;
				let v = v?;
				match kind {
					SeqKind::BTreeSet => dedup_sorted(v),
					_ => v,
				}
			},
			Ty::Map { k, v, .. } => {
				let n = self.compact(32)? as u64;
				let min = (k.min_len() + v.min_len()) as u64;
				if min > 0 && n.saturating_mul(min) > self.remaining() as u64 {
					return Err(Rej::Eof);
				}
				if min == 0 {
					self.giant_zw = self.giant_zw.max(n);
					if n > 1 << 16 {
						// domain decision: not materialised (callers skip on `giant_zw`)
						return Err(Rej::Eof);
					}
				}
				let mut entries: Vec<(Val, Val)> = Vec::with_capacity(n as usize);
				for _ in 0..n {
					let a = self.val(k)?;
					let b = self.val(v)?;
					entries.push((a, b));
				}
				// last value wins for duplicate keys; result in key order
				let mut out: Vec<(Val, Val)> = Vec::with_capacity(entries.len());
				entries.reverse();
				entries.sort_by(|x, y| cmp_val(&x.0, &y.0)); // stable: latest first among equals
				for e in entries {
					if out.last().map_or(true, |l| cmp_val(&l.0, &e.0) != std::cmp::Ordering::Equal) {
						out.push(e);
					}
				}
				Val::Map(out)
			},
			Ty::Array(elem, n) => self.elems(elem, *n as u64)?,
			Ty::Tuple(ts) => {
				let mut out = Vec::with_capacity(ts.len());
				for t in ts {
					out.push(self.val(t)?);
				}
				Val::Tuple(out)
			},
			Ty::Str => {
				let n = self.compact(32)? as usize;
				let s = self.take(n)?;
				if std::str::from_utf8(s).is_err() {
					return Err(Rej::BadUtf8);
				}
				Val::Bytes(s.to_vec())
			},
			Ty::Holder { inner, .. } => return self.val(inner),
			Ty::Duration => {
				let secs = self.uint(64)?;
				let nanos = self.uint(32)?;
				if nanos >= 1_000_000_000 {
					return Err(Rej::Nanos);
				}
				Val::Tuple(vec![Val::U(secs), Val::U(nanos)])
			},
			Ty::Range(t) | Ty::RangeIncl(t) => {
				let a = self.val(t)?;
				let b = self.val(t)?;
				Val::Tuple(vec![a, b])
			},
			Ty::Bits { store, msb0 } => {
				let n = self.compact(32)? as u64;
				if n > MAX_BITS {
					return Err(Rej::BitsTooLong);
				}
				let w = u64::from(*store);
				let words = (n + w - 1) / w;
				let raw = self.take((words * w / 8) as usize)?;
				let wb = (w / 8) as usize;
				let mut bits = Vec::with_capacity(n as usize);
				for i in 0..n {
					let word_i = (i / w) as usize;
					let mut word = [0u8; 8];
					word[..wb].copy_from_slice(&raw[word_i * wb..(word_i + 1) * wb]);
					let word = u64::from_le_bytes(word);
					let within = i % w;
					let pos = if *msb0 { w - 1 - within } else { within };
					bits.push((word >> pos) & 1 == 1);
				}
				Val::Bits(bits)
			},
			Ty::Struct { fields, .. } => Val::Tuple(self.fields(fields)?),
			Ty::Enum { variants, .. } => {
				let idx = self.byte()?;
				match variants.iter().position(|v| v.index == Some(idx)) {
					Some(i) => Val::Variant(i, self.fields(&variants[i].fields)?),
					None => return Err(Rej::BadVariant),
				}
			},
		})
	}
}

fn dedup_sorted(v: Val) -> Val {
	match v {
		Val::Seq(mut items) => {
			items.sort_by(cmp_val);
			items.dedup_by(|a, b| cmp_val(a, b) == std::cmp::Ordering::Equal);
			Val::Seq(items)
		},
		Val::Bytes(mut b) => {
			b.sort();
			b.dedup();
			Val::Bytes(b)
		},
		// a set of zero-width elements holds at most one
		Val::Repeat(n, x) => Val::Repeat(n.min(1), x),
		other => other,
	}
}

/// Decode one value from the front of `data`: `Ok((value, bytes consumed))` or the rejection rule.
pub fn ref_decode(ty: &Ty, data: &[u8]) -> Result<(Val, usize), Rej> {
	ref_decode_ex(ty, data).0
}

/// As `ref_decode`, also reporting the largest expensive zero-width count met on the way.
pub fn ref_decode_ex(ty: &Ty, data: &[u8]) -> (Result<(Val, usize), Rej>, u64) {
	let mut d = Dec { data, pos: 0, giant_zw: 0, cheap_kind: false };
	let r = d.val(ty);
	let pos = d.pos;
	(r.map(|v| (v, pos)), d.giant_zw)
}
