//! Model self-test against published vectors (SCALE documentation and the hex strings pinned in
//! the repository's own tests). A failure here means the oracle is broken (exit 2), never a
//! violation of the code under test.

use crate::{dec::*, enc::*, ty::*};

fn h(s: &str) -> Vec<u8> {
	crate::stats::unhex(s)
}

fn vecu8(b: &[u8]) -> Val {
	Val::Bytes(b.to_vec())
}

pub fn vectors() -> Vec<(Ty, Val, Vec<u8>)> {
	let c = |b: u32, x: u128, s: &str| (Ty::Compact(b), Val::U(x), h(s));
	let mut v = vec![
		// SCALE documentation: fixed-width integers
		(Ty::I(8), Val::I(69), h("45")),
		(Ty::U(16), Val::U(42), h("2a00")),
		(Ty::U(32), Val::U(16777215), h("ffffff00")),
		(Ty::I(16), Val::I(-2), h("feff")),
		(Ty::U(64), Val::U(u64::MAX as u128), h("ffffffffffffffff")),
		(Ty::U(128), Val::U(1), h("01000000000000000000000000000000")),
		// documentation: compact
		c(8, 0, "00"),
		c(8, 1, "04"),
		c(8, 42, "a8"),
		c(16, 69, "1501"),
		c(32, 65535, "feff0300"),
		c(128, 100000000000000, "0b00407a10f35a"),
		// repository tests: compact_integers_encoded_as_expected / compact_64_encoding_works
		c(64, 0, "00"),
		c(64, 63, "fc"),
		c(64, 64, "0101"),
		c(64, 16383, "fdff"),
		c(64, 16384, "02000100"),
		c(64, 1073741823, "feffffff"),
		c(64, 1073741824, "0300000040"),
		c(64, (1 << 32) - 1, "03ffffffff"),
		c(64, 1 << 32, "070000000001"),
		c(64, 1 << 40, "0b000000000001"),
		c(64, 1 << 48, "0f00000000000001"),
		c(64, (1 << 56) - 1, "0fffffffffffffff"),
		c(64, 1 << 56, "130000000000000001"),
		c(64, u64::MAX as u128, "13ffffffffffffffff"),
		c(128, u128::MAX, "33ffffffffffffffffffffffffffffffff"),
		c(32, u32::MAX as u128, "03ffffffff"),
		c(16, 65535, "feff0300"),
		c(8, 255, "fd03"),
		// bool / option / result
		(Ty::Bool, Val::Bool(false), h("00")),
		(Ty::Bool, Val::Bool(true), h("01")),
		(Ty::Option(Box::new(Ty::Bool)), Val::Opt(None), h("00")),
		(Ty::Option(Box::new(Ty::Bool)), Val::some(Val::Bool(true)), h("0101")),
		(Ty::Option(Box::new(Ty::Bool)), Val::some(Val::Bool(false)), h("0100")),
		(Ty::OptionBool, Val::OptBool(None), h("00")),
		(Ty::OptionBool, Val::OptBool(Some(true)), h("01")),
		(Ty::OptionBool, Val::OptBool(Some(false)), h("02")),
		(Ty::Result(Box::new(Ty::U(8)), Box::new(Ty::Bool)), Val::ok(Val::U(42)), h("002a")),
		(Ty::Result(Box::new(Ty::U(8)), Box::new(Ty::Bool)), Val::err(Val::Bool(false)), h("0100")),
		// vectors / strings (repository tests)
		(
			Ty::vec(Ty::U(16), 2),
			Val::Seq([4u128, 8, 15, 16, 23, 42].iter().map(|x| Val::U(*x)).collect()),
			h("18040008000f00100017002a00"),
		),
		(Ty::Str, vecu8(b"Hello, World!"), h("3448656c6c6f2c20576f726c6421")),
		(Ty::vec(Ty::U(8), 1), vecu8(&[0, 1, 1, 2, 3, 5, 8, 13, 21, 34]), h("2800010102030508 0d1522")),
		(
			Ty::vec(Ty::I(16), 2),
			Val::Seq([0i128, 1, -1, 2, -2, 3, -3].iter().map(|x| Val::I(*x)).collect()),
			h("1c 00 00 01 00 ff ff 02 00 fe ff 03 00 fd ff"),
		),
		(
			Ty::vec(Ty::Option(Box::new(Ty::I(8))), 2),
			Val::Seq(vec![Val::some(Val::I(1)), Val::some(Val::I(-1)), Val::Opt(None)]),
			h("0c 01 01 01 ff 00"),
		),
		(
			Ty::vec(Ty::OptionBool, 1),
			Val::Seq(vec![Val::OptBool(Some(true)), Val::OptBool(Some(false)), Val::OptBool(None)]),
			h("0c 01 02 00"),
		),
		(Ty::vec(Ty::Unit, 0), Val::Repeat(5, Box::new(Val::Unit)), h("14")),
		(
			Ty::vec(Ty::Str, 24),
			Val::Seq(vec![vecu8(b"Hamlet"), vecu8("Война и мир".as_bytes()), vecu8("三国演义".as_bytes()), vecu8("أَلْف لَيْلَة وَلَيْلَة‎".as_bytes())]),
			h("10 18 48 61 6d 6c 65 74 50 d0 92 d0 be d0 b9 d0 bd d0 b0 20 d0 b8 20 d0 bc d0 b8 d1 80 30 e4 b8 89 e5 9b bd e6 bc 94 e4 b9 89 bc d8 a3 d9 8e d9 84 d9 92 d9 81 20 d9 84 d9 8e d9 8a d9 92 d9 84 d9 8e d8 a9 20 d9 88 d9 8e d9 84 d9 8e d9 8a d9 92 d9 84 d9 8e d8 a9 e2 80 8e"),
		),
		// documentation: tuple (compact 3, bool false)
		(Ty::Tuple(vec![Ty::Compact(32), Ty::Bool]), Val::Tuple(vec![Val::U(3), Val::Bool(false)]), h("0c00")),
		// duration / ranges: two plain fields in order
		(Ty::Duration, Val::Tuple(vec![Val::U(1), Val::U(2)]), h("0100000000000000 02000000")),
		(Ty::Range(Box::new(Ty::U(8))), Val::Tuple(vec![Val::U(1), Val::U(5)]), h("0105")),
		// floats little-endian IEEE-754
		(Ty::F32, Val::F32(1.0f32.to_bits()), h("0000803f")),
		(Ty::F64, Val::F64((-2.0f64).to_bits()), h("00000000000000c0")),
		// array = plain concatenation
		(Ty::Array(Box::new(Ty::U(16)), 3), Val::Seq(vec![Val::U(1), Val::U(2), Val::U(3)]), h("010002000300")),
		// map = count + (k, v) in key order
		(
			Ty::Map { k: Box::new(Ty::U(8)), v: Box::new(Ty::U(16)), entry_mem: 4 },
			Val::Map(vec![(Val::U(1), Val::U(2)), (Val::U(3), Val::U(4))]),
			h("08 01 0200 03 0400"),
		),
	];
	// bit sequences (bitvec documentation + repository test bitvec_u8_encodes_as_expected)
	let bits = |s: &str| Val::Bits(s.bytes().map(|c| c == b'1').collect());
	v.push((Ty::Bits { store: 8, msb0: true }, bits("1111000011001"), h("34 f0 c8")));
	v.push((Ty::Bits { store: 8, msb0: false }, bits("10110"), h("14 0d")));
	v.push((Ty::Bits { store: 16, msb0: false }, bits("1"), h("04 0100")));
	v.push((Ty::Bits { store: 16, msb0: true }, bits("1"), h("04 0080")));
	v.push((Ty::Bits { store: 8, msb0: true }, bits(""), h("00")));
	// enum: index byte + fields
	let e = Ty::Enum {
		name: "GoldenEnum".into(),
		variants: vec![
			Variant { name: "A".into(), index: Some(15), fields: vec![] },
			Variant { name: "B".into(), index: None, fields: vec![] },
			Variant { name: "C".into(), index: Some(3), fields: vec![Field { ty: Ty::U(16), skip: false }] },
			Variant { name: "D".into(), index: Some(2), fields: vec![] },
		],
	};
	v.push((e.clone(), Val::Variant(0, vec![]), h("0f")));
	v.push((e.clone(), Val::Variant(2, vec![Val::U(0x0102)]), h("03 0201")));
	v.push((e.clone(), Val::Variant(3, vec![]), h("02")));
	v
}

/// Returns the list of failed vectors (empty = oracle consistent with the published vectors).
pub fn self_test() -> Vec<String> {
	let mut bad = vec![];
	for (ty, val, bytes) in vectors() {
		let enc = ref_encode(&ty, &val);
		if enc != bytes {
			bad.push(format!("encode {} {}: model {} published {}", ty.short_name(), val.brief(60), crate::stats::hex(&enc), crate::stats::hex(&bytes)));
			continue;
		}
		match ref_decode(&ty, &bytes) {
			Ok((v, used)) if used == bytes.len() && eqv(&normalize(&ty, &v), &normalize(&ty, &val)) => {},
			other => bad.push(format!("decode {} {}: {:?}", ty.short_name(), crate::stats::hex(&bytes), other.map(|(v, u)| (v.brief(60), u)))),
		}
	}
	// rejection rules
	let rejects: Vec<(Ty, &str, Rej)> = vec![
		(Ty::Bool, "02", Rej::BadTag),
		(Ty::Option(Box::new(Ty::U(8))), "0200", Rej::BadTag),
		(Ty::OptionBool, "03", Rej::BadTag),
		(Ty::NzU(16), "0000", Rej::ZeroNonZero),
		(Ty::Duration, "0000000000000000 00ca9a3b", Rej::Nanos),
		(Ty::Str, "04 ff", Rej::BadUtf8),
		(Ty::Compact(32), "0100", Rej::CompactNonCanonical),
		(Ty::Compact(32), "02000000", Rej::CompactNonCanonical),
		(Ty::Compact(32), "0300000000", Rej::CompactNonCanonical),
		(Ty::Compact(8), "0104", Rej::CompactTooWide),
		(Ty::Compact(32), "070000000001", Rej::CompactTooWide),
		(Ty::Compact(64), "0b000000000000", Rej::CompactNonCanonical),
		(Ty::vec(Ty::U(8), 1), "0c0102", Rej::Eof),
		(Ty::U(32), "010203", Rej::Eof),
		(Ty::Bits { store: 8, msb0: false }, "02000080", Rej::BitsTooLong),
	];
	for (ty, s, want) in rejects {
		match ref_decode(&ty, &h(s)) {
			Err(r) if r == want => {},
			other => bad.push(format!("reject {} {s}: want {want:?} got {:?}", ty.short_name(), other.map(|(v, u)| (v.brief(40), u)))),
		}
	}
	// Duration with 999_999_999 nanos is fine
	if ref_decode(&Ty::Duration, &h("0000000000000000 ffc99a3b")).is_err() {
		bad.push("duration 999999999 rejected".into());
	}
	bad
}
