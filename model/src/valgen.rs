//! Value generators driven by the tape, one per `Ty` node.

use crate::{gen::*, ty::*};

/// Generation parameters.
#[derive(Clone, Copy)]
pub struct GenCfg {
	/// remaining budget of sequence elements (total over the value)
	pub budget: usize,
	/// remaining recursion depth for recursive definitions
	pub rec_depth: u32,
	/// may skipped enum variants be produced?
	pub allow_skipped_variants: bool,
	/// bias every choice to the longest encoding (C13)
	pub maximize: bool,
}

impl Default for GenCfg {
	fn default() -> Self {
		GenCfg { budget: 70_000, rec_depth: 6, allow_skipped_variants: false, maximize: false }
	}
}

pub fn gen_string(g: &mut Gen, len_chars: usize) -> Vec<u8> {
	let mut s = String::new();
	let mut st = g.stream();
	let mode = g.below(4);
	for _ in 0..len_chars {
		let r = st.next();
		let c = match if mode == 0 { 0 } else { r & 7 } {
			0..=3 => char::from(b' ' + ((r >> 8) % 95) as u8),
			4 => char::from_u32(0x80 + ((r >> 8) % 0x780) as u32).unwrap_or('é'),
			5 => char::from_u32(0x800 + ((r >> 8) % 0xD000) as u32).unwrap_or('€'),
			6 => char::from_u32(0x1_0000 + ((r >> 8) % 0xF_FFFF) as u32).unwrap_or('😀'),
			_ => *[
				'\0', '\u{7f}', '\u{80}', '\u{7ff}', '\u{800}', '\u{ffff}', '\u{10000}', '\u{10ffff}',
				'\u{d7ff}', '\u{e000}',
			]
			.get(((r >> 8) % 10) as usize)
			.unwrap(),
		};
		s.push(c);
	}
	s.into_bytes()
}

fn take_budget(cfg: &mut GenCfg, want: usize) -> usize {
	let n = want.min(cfg.budget);
	cfg.budget -= n;
	n
}

pub fn gen_val(ty: &Ty, g: &mut Gen, cfg: &mut GenCfg) -> Val {
	match ty {
		Ty::Ref(n) => {
			let t = lookup(n);
			if cfg.rec_depth == 0 {
				return minimal_val(&t);
			}
			cfg.rec_depth -= 1;
			let v = gen_val(&t, g, cfg);
			cfg.rec_depth += 1;
			v
		},
		Ty::U(b) | Ty::Compact(b) =>
			if cfg.maximize && !g.chance(32) {
				Val::U(if *b == 128 { u128::MAX } else { (1u128 << b) - 1 })
			} else {
				Val::U(biased_uint(g, *b))
			},
		Ty::I(b) => Val::I(biased_sint(g, *b)),
		Ty::NzU(b) => {
			let v = biased_uint(g, *b);
			Val::U(if v == 0 { 1 } else { v })
		},
		Ty::NzI(b) => {
			let v = biased_sint(g, *b);
			Val::I(if v == 0 { -1 } else { v })
		},
		Ty::F32 => Val::F32(biased_f32(g)),
		Ty::F64 => Val::F64(biased_f64(g)),
		Ty::Bool => Val::Bool(g.bool()),
		Ty::Unit | Ty::Phantom | Ty::CompactUnit => Val::Unit,
		Ty::Option(t) =>
			if (cfg.maximize && !g.chance(32)) || g.chance(160) {
				Val::some(gen_val(t, g, cfg))
			} else {
				Val::Opt(None)
			},
		Ty::Result(a, b) => {
			let ok = if cfg.maximize && !g.chance(32) {
				a.max_len().unwrap_or(usize::MAX) >= b.max_len().unwrap_or(usize::MAX)
			} else {
				!g.bool()
			};
			if ok {
				Val::ok(gen_val(a, g, cfg))
			} else {
				Val::err(gen_val(b, g, cfg))
			}
		},
		Ty::OptionBool => Val::OptBool(match g.below(3) {
			0 => None,
			1 => Some(true),
			_ => Some(false),
		}),
		Ty::Seq { kind, elem, elem_mem } => {
			let cap = if elem.zero_width() { 1 << 20 } else { cfg.budget };
			let mut want = biased_len(g, *elem_mem, cap);
			if !matches!(**elem, Ty::U(_) | Ty::I(_) | Ty::F32 | Ty::F64 | Ty::Unit | Ty::Bool) &&
				want > 300 && !g.chance(24)
			{
				// long sequences of composite elements are expensive: mostly keep them short
				want %= 67;
			}
			gen_seq(*kind, elem, want, g, cfg)
		},
		Ty::Map { k, v, entry_mem } => {
			let mut want = biased_len(g, *entry_mem, cfg.budget);
			if want > 200 && !g.chance(24) {
				want %= 41;
			}
			let n = take_budget(cfg, want);
			let mut entries: Vec<(Val, Val)> = Vec::with_capacity(n);
			for _ in 0..n {
				let a = gen_val(k, g, cfg);
				let b = gen_val(v, g, cfg);
				entries.push((a, b));
			}
			entries.sort_by(|x, y| cmp_val(&x.0, &y.0));
			entries.dedup_by(|a, b| cmp_val(&a.0, &b.0) == std::cmp::Ordering::Equal);
			Val::Map(entries)
		},
		Ty::Array(elem, n) => {
			// arrays have a fixed arity whatever the budget says
			let saved = cfg.budget;
			cfg.budget = cfg.budget.max(*n);
			let v = gen_elems(elem, *n, g, cfg);
			cfg.budget = cfg.budget.min(saved);
			v
		},
		Ty::Tuple(ts) => Val::Tuple(ts.iter().map(|t| gen_val(t, g, cfg)).collect()),
		Ty::Str => {
			let want = biased_len(g, 1, cfg.budget);
			let n = take_budget(cfg, want);
			Val::Bytes(gen_string(g, n))
		},
		Ty::Holder { inner, .. } => gen_val(inner, g, cfg),
		Ty::Duration => {
			let secs = biased_uint(g, 64);
			let nanos = match g.below(4) {
				0 => 0,
				1 => 999_999_999,
				_ => biased_uint(g, 32) % 1_000_000_000,
			};
			Val::Tuple(vec![Val::U(secs), Val::U(nanos)])
		},
		Ty::Range(t) | Ty::RangeIncl(t) => {
			let a = gen_val(t, g, cfg);
			let b = gen_val(t, g, cfg);
			Val::Tuple(vec![a, b])
		},
		Ty::Bits { store, .. } => {
			let want = match g.below(8) {
				0 => g.below(131),
				1 => (*store as usize) * g.below(4) + g.below(3),
				2 => {
					let c = 8 * 16384;
					*g.pick(&[c - 1, c, c + 1, 2 * c + 1, c + (*store as usize)])
				},
				_ => g.below(70),
			};
			let n = take_budget(cfg, want / 8) * 8 + (want % 8).min(cfg.budget);
			let n = n.min(want);
			let mut st = g.stream();
			let mode = g.below(4);
			let bits = (0..n)
				.map(|_| match mode {
					0 => false,
					1 => true,
					_ => st.next() & 1 == 1,
				})
				.collect();
			Val::Bits(bits)
		},
		Ty::Struct { fields, .. } => Val::Tuple(fields.iter().map(|f| gen_val(&f.ty, g, cfg)).collect()),
		Ty::Enum { variants, .. } => {
			let candidates: Vec<usize> = variants
				.iter()
				.enumerate()
				.filter(|(_, v)| cfg.allow_skipped_variants || v.index.is_some())
				.map(|(i, _)| i)
				.collect();
			assert!(!candidates.is_empty(), "model: enum without encodable variant");
			let i = if cfg.maximize && !g.chance(48) {
				// longest variant
				*candidates
					.iter()
					.max_by_key(|i| {
						variants[**i]
							.fields
							.iter()
							.filter(|f| !f.skip)
							.map(|f| f.ty.max_len().unwrap_or(1 << 20))
							.sum::<usize>()
					})
					.unwrap()
			} else if cfg.rec_depth == 0 {
				candidates[0]
			} else {
				*g.pick(&candidates)
			};
			Val::Variant(i, variants[i].fields.iter().map(|f| gen_val(&f.ty, g, cfg)).collect())
		},
	}
}

fn gen_seq(kind: SeqKind, elem: &Ty, want: usize, g: &mut Gen, cfg: &mut GenCfg) -> Val {
	let v = gen_elems(elem, want, g, cfg);
	match kind {
		SeqKind::BTreeSet => match v {
			Val::Seq(mut items) => {
				items.sort_by(cmp_val);
				items.dedup_by(|a, b| cmp_val(a, b) == std::cmp::Ordering::Equal);
				Val::Seq(items)
			},
			Val::Bytes(mut b) => {
				b.sort();
				b.dedup();
				Val::Bytes(b)
			},
			Val::Repeat(n, x) => Val::Repeat(n.min(1), x),
			o => o,
		},
		_ => v,
	}
}

/// `want` elements (subject to the budget) in the canonical sequence representation.
pub fn gen_elems(elem: &Ty, want: usize, g: &mut Gen, cfg: &mut GenCfg) -> Val {
	if elem.zero_width() {
		return Val::Repeat(want as u64, Box::new(elem.default_val()));
	}
	let n = take_budget(cfg, want);
	match elem {
		Ty::U(8) => {
			let mut b = vec![0u8; n];
			match g.below(4) {
				0 => {},
				1 => b.iter_mut().enumerate().for_each(|(i, x)| *x = i as u8),
				_ => g.stream().fill(&mut b),
			}
			Val::Bytes(b)
		},
		Ty::U(bits) if n > 64 => {
			let mut st = g.stream();
			let mask = if *bits == 128 { u128::MAX } else { (1u128 << bits) - 1 };
			Val::Seq(
				(0..n)
					.map(|_| Val::U(((u128::from(st.next()) << 64) | u128::from(st.next())) & mask))
					.collect(),
			)
		},
		Ty::I(bits) if n > 64 => {
			let mut st = g.stream();
			Val::Seq(
				(0..n)
					.map(|_| {
						Val::I(sign_extend((u128::from(st.next()) << 64) | u128::from(st.next()), *bits))
					})
					.collect(),
			)
		},
		Ty::F32 if n > 64 => {
			let mut st = g.stream();
			Val::Seq((0..n).map(|_| Val::F32(st.next() as u32)).collect())
		},
		Ty::F64 if n > 64 => {
			let mut st = g.stream();
			Val::Seq((0..n).map(|_| Val::F64(st.next())).collect())
		},
		_ => Val::Seq((0..n).map(|_| gen_val(elem, g, cfg)).collect()),
	}
}

/// Simplest value of a type (used to terminate recursive definitions).
pub fn minimal_val(ty: &Ty) -> Val {
	let zero = [0u8; 0];
	let mut g = Gen::new(&zero);
	let mut cfg = GenCfg { budget: 0, rec_depth: 0, allow_skipped_variants: false, maximize: false };
	match ty {
		Ty::Enum { variants, .. } => {
			// pick the encodable variant with the fewest recursive fields
			let i = variants
				.iter()
				.enumerate()
				.filter(|(_, v)| v.index.is_some())
				.min_by_key(|(_, v)| v.fields.iter().filter(|f| f.ty.is_recursive()).count())
				.map(|(i, _)| i)
				.expect("model: enum without encodable variant");
			Val::Variant(i, variants[i].fields.iter().map(|f| gen_val(&f.ty, &mut g, &mut cfg)).collect())
		},
		_ => gen_val(ty, &mut g, &mut cfg),
	}
}
