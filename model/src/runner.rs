//! Drivers: the proptest-driven random driver over tapes (with Hypothesis-style tape shrinking)
//! and helpers for the exhaustive drivers. Sharded over threads; a run is a pure function of
//! (code, tier, VERIF_SEED).

use crate::{gen::Gen, stats::*};
use proptest::{
	strategy::{NewTree, Strategy, ValueTree},
	test_runner::{Config, RngAlgorithm, TestCaseError, TestError, TestRng, TestRunner},
};
use std::{
	cell::RefCell,
	panic::{catch_unwind, AssertUnwindSafe},
	sync::Mutex,
};

// ---------------------------------------------------------------------------------------------
// panic capture

thread_local! {
	static LAST_PANIC: RefCell<Option<String>> = const { RefCell::new(None) };
}

/// Install a hook that records panic messages instead of printing them.
pub fn install_quiet_panic_hook() {
	std::panic::set_hook(Box::new(|info| {
		let msg = if let Some(s) = info.payload().downcast_ref::<&str>() {
			s.to_string()
		} else if let Some(s) = info.payload().downcast_ref::<String>() {
			s.clone()
		} else {
			"<non-string panic>".to_string()
		};
		let loc = info.location().map(|l| format!(" at {}:{}", l.file(), l.line())).unwrap_or_default();
		// the machinery's own failures are never silent (they end a run as inconclusive)
		if msg.starts_with("zoo:") || msg.starts_with("model:") || msg.starts_with("bridge:") || msg.starts_with("harness:") {
			eprintln!("harness panic: {msg}{loc}");
		}
		LAST_PANIC.with(|p| *p.borrow_mut() = Some(format!("{msg}{loc}")));
	}));
}

pub fn take_panic_message() -> String {
	LAST_PANIC.with(|p| p.borrow_mut().take()).unwrap_or_else(|| "<unknown panic>".into())
}

/// Run code under test; a panic becomes `Err(message)`.
pub fn guard<T>(f: impl FnOnce() -> T) -> Result<T, String> {
	match catch_unwind(AssertUnwindSafe(f)) {
		Ok(v) => Ok(v),
		Err(_) => {
			let msg = take_panic_message();
			if msg.starts_with("model:") || msg.starts_with("bridge:") || msg.starts_with("harness:") {
				// a bug in the oracle or the bridge, not in the code under test: never a violation
				panic!("{msg}");
			}
			Err(msg)
		},
	}
}

// ---------------------------------------------------------------------------------------------
// tape strategy

#[derive(Debug, Clone)]
pub struct TapeStrategy {
	pub len: usize,
}

pub struct TapeTree {
	best: Vec<u8>,
	cur: Vec<u8>,
	started: bool,
	pass: usize,
	idx: usize,
	// binary search bounds for the truncation pass
	lo: usize,
	hi: usize,
	progress: bool,
	rounds: usize,
}

impl Strategy for TapeStrategy {
	type Tree = TapeTree;
	type Value = Vec<u8>;
	fn new_tree(&self, runner: &mut TestRunner) -> NewTree<Self> {
		use proptest::prelude::RngCore;
		let mut tape = vec![0u8; self.len];
		runner.rng().fill_bytes(&mut tape);
		// a quarter of the tapes are sparse: mostly-zero bytes make "simplest choice" paths common
		if tape[0] & 3 == 0 {
			for i in 1..tape.len() {
				if tape[i] & 1 == 0 {
					tape[i] = 0;
				}
			}
		}
		let hi = tape.len();
		Ok(TapeTree {
			best: tape.clone(),
			cur: tape,
			started: false,
			pass: 0,
			idx: 0,
			lo: 0,
			hi,
			progress: false,
			rounds: 0,
		})
	}
}

const DELETE_SIZES: [usize; 4] = [32, 8, 2, 1];
const ZERO_SIZES: [usize; 2] = [16, 4];
const N_PASSES: usize = 1 + 4 + 2 + 3;

impl TapeTree {
	/// Build the next candidate from `best`; false when every pass is exhausted.
	fn next_candidate(&mut self) -> bool {
		loop {
			let n = self.best.len();
			match self.pass {
				0 => {
					if self.lo < self.hi {
						let mid = (self.lo + self.hi) / 2;
						self.cur = self.best[..mid].to_vec();
						return true;
					}
				},
				1..=4 => {
					let size = DELETE_SIZES[self.pass - 1];
					let start = self.idx * size;
					if start < n && n > 0 {
						let end = (start + size).min(n);
						let mut c = self.best[..start].to_vec();
						c.extend_from_slice(&self.best[end..]);
						self.cur = c;
						return true;
					}
				},
				5..=6 => {
					let size = ZERO_SIZES[self.pass - 5];
					while self.idx * size < n {
						let start = self.idx * size;
						let end = (start + size).min(n);
						if self.best[start..end].iter().any(|b| *b != 0) {
							let mut c = self.best.clone();
							c[start..end].iter_mut().for_each(|b| *b = 0);
							self.cur = c;
							return true;
						}
						self.idx += 1;
					}
				},
				7..=9 => {
					while self.idx < n {
						let b = self.best[self.idx];
						let nb = match self.pass {
							7 => 0,
							8 => b / 2,
							_ => b.saturating_sub(1),
						};
						if nb != b {
							let mut c = self.best.clone();
							c[self.idx] = nb;
							self.cur = c;
							return true;
						}
						self.idx += 1;
					}
				},
				_ => {
					if self.progress && self.rounds < 3 {
						self.rounds += 1;
						self.progress = false;
						self.pass = 0;
						self.idx = 0;
						self.lo = 0;
						self.hi = self.best.len();
						continue;
					}
					return false;
				},
			}
			// pass exhausted
			self.pass += 1;
			self.idx = 0;
			if self.pass >= N_PASSES {
				self.pass = N_PASSES;
			}
		}
	}
}

impl ValueTree for TapeTree {
	type Value = Vec<u8>;
	fn current(&self) -> Vec<u8> {
		self.cur.clone()
	}
	/// Called at the start, and after the current candidate failed (i.e. is accepted).
	fn simplify(&mut self) -> bool {
		if self.started {
			// accept the candidate
			self.progress = true;
			match self.pass {
				0 => self.hi = self.cur.len(),
				1..=4 => {}, // content shifted into place: same idx
				8 => {},     // keep halving the same byte
				_ => self.idx += 1,
			}
			self.best = self.cur.clone();
		}
		self.started = true;
		self.next_candidate()
	}
	/// Called after the current candidate passed (i.e. is rejected).
	fn complicate(&mut self) -> bool {
		match self.pass {
			0 => self.lo = self.cur.len() + 1,
			_ => self.idx += 1,
		}
		self.cur = self.best.clone();
		self.next_candidate()
	}
}

// ---------------------------------------------------------------------------------------------
// random driver

pub type CheckFn<'a> = dyn Fn(&mut Gen, &mut Stats) -> Result<(), Violation> + Sync + 'a;

pub struct Failure {
	pub tape: Vec<u8>,
	pub violation: Violation,
}

pub struct Outcome {
	pub stats: Stats,
	pub failures: Vec<Failure>,
	/// harness or oracle malfunction (exit 2), never a violation
	pub broken: Option<String>,
}

pub struct RandomCfg {
	pub seed: u64,
	pub shards: usize,
	pub cases_per_shard: u32,
	pub tape_len: usize,
	pub known: Vec<Known>,
}

fn shard_seed(seed: u64, shard: usize, salt: u64) -> [u8; 32] {
	let mut s = crate::gen::splitmix(seed ^ (shard as u64).wrapping_mul(0xA24B_AED4_963E_E407) ^ salt);
	let mut out = [0u8; 32];
	s.fill(&mut out);
	out
}

/// Evaluate one tape. Panics escaping the check (oracle/harness bugs) are reported separately.
pub fn run_tape(check: &CheckFn, tape: &[u8], stats: &mut Stats) -> Result<Result<(), Violation>, String> {
	let mut g = Gen::new(tape);
	match catch_unwind(AssertUnwindSafe(|| check(&mut g, stats))) {
		Ok(r) => Ok(r),
		Err(_) => Err(take_panic_message()),
	}
}

pub fn run_random(cfg: &RandomCfg, salt: u64, check: &CheckFn) -> Outcome {
	let results: Mutex<Vec<(Stats, Option<Failure>, Option<String>)>> = Mutex::new(vec![]);
	std::thread::scope(|scope| {
		for shard in 0..cfg.shards {
			let results = &results;
			let known = &cfg.known;
			std::thread::Builder::new()
				.stack_size(64 << 20)
				.spawn_scoped(scope, move || {
					let stats = RefCell::new(Stats::default());
					let broken: RefCell<Option<String>> = RefCell::new(None);
					let config = Config {
						cases: cfg.cases_per_shard,
						failure_persistence: None,
						max_shrink_iters: 2500,
						max_shrink_time: 0,
						max_local_rejects: u32::MAX,
						max_global_rejects: u32::MAX,
						verbose: 0,
						..Config::default()
					};
					let rng = TestRng::from_seed(RngAlgorithm::ChaCha, &shard_seed(cfg.seed, shard, salt));
					let mut runner = TestRunner::new_with_rng(config, rng);
					let strategy = TapeStrategy { len: cfg.tape_len };
					let res = runner.run(&strategy, |tape| {
						if broken.borrow().is_some() {
							return Ok(());
						}
						let mut st = stats.borrow_mut();
						match run_tape(check, &tape, &mut st) {
							Ok(Ok(())) => Ok(()),
							Ok(Err(v)) => {
								if let Some(k) = known.iter().find(|k| k.signature == v.sig) {
									// a listed finding: excluded, the search continues
									if !st.frozen {
										*st.known_hits.entry(k.signature.clone()).or_insert(0) += 1;
										*st.excluded.entry(format!("known-finding:{}", k.signature)).or_insert(0) += 1;
									}
									return Ok(());
								}
								st.frozen = true; // stop counting: the closure re-runs while shrinking
								Err(TestCaseError::fail(v.sig.clone()))
							},
							Err(p) => {
								*broken.borrow_mut() = Some(p);
								Ok(())
							},
						}
					});
					let failure = match res {
						Ok(()) => None,
						Err(TestError::Fail(_, tape)) => {
							let mut scratch = Stats { frozen: true, ..Stats::default() };
							match run_tape(check, &tape, &mut scratch) {
								Ok(Err(v)) => Some(Failure { tape, violation: v }),
								Ok(Ok(())) => {
									*broken.borrow_mut() =
										Some("minimal tape does not reproduce the failure (flaky check)".into());
									None
								},
								Err(p) => {
									*broken.borrow_mut() = Some(p);
									None
								},
							}
						},
						Err(TestError::Abort(r)) => {
							*broken.borrow_mut() = Some(format!("proptest aborted: {r}"));
							None
						},
					};
					let mut st = stats.into_inner();
					st.frozen = false;
					results.lock().unwrap().push((st, failure, broken.into_inner()));
				})
				.expect("spawn shard");
		}
	});
	let mut out = Outcome { stats: Stats::default(), failures: vec![], broken: None };
	for (st, f, b) in results.into_inner().unwrap() {
		out.stats.merge(st);
		if let Some(f) = f {
			out.failures.push(f);
		}
		if out.broken.is_none() {
			out.broken = b;
		}
	}
	// deterministic order, one failure per root cause
	out.failures.sort_by(|a, b| (a.violation.sig.as_str(), a.tape.len(), &a.tape).cmp(&(b.violation.sig.as_str(), b.tape.len(), &b.tape)));
	out.failures.dedup_by(|a, b| a.violation.sig == b.violation.sig);
	out
}

/// Run `n` independent jobs on up to `threads` worker threads and collect their results in order.
pub fn parallel_map<T: Send, F: Fn(usize) -> T + Sync>(n: usize, threads: usize, f: F) -> Vec<T> {
	let next = std::sync::atomic::AtomicUsize::new(0);
	let out: Mutex<Vec<Option<T>>> = Mutex::new((0..n).map(|_| None).collect());
	std::thread::scope(|scope| {
		for _ in 0..threads.min(n.max(1)) {
			std::thread::Builder::new()
				.stack_size(64 << 20)
				.spawn_scoped(scope, || loop {
					let i = next.fetch_add(1, std::sync::atomic::Ordering::SeqCst);
					if i >= n {
						break;
					}
					let r = f(i);
					out.lock().unwrap()[i] = Some(r);
				})
				.expect("spawn worker");
		}
	});
	out.into_inner().unwrap().into_iter().map(|x| x.expect("job result")).collect()
}
