//! Dynamically typed description of SCALE types (`Ty`) and values (`Val`).
//!
//! Written from the SCALE specification text and the property statements; shares no code with
//! the crate under test.

use std::{
	cmp::Ordering,
	collections::HashMap,
	sync::{Arc, OnceLock, RwLock},
};

#[derive(Clone, Copy, Debug, PartialEq, Eq, Hash)]
pub enum SeqKind {
	Vec,
	VecDeque,
	LinkedList,
	BinaryHeap,
	BTreeSet,
	/// `&[T]`, `Cow<[T]>`: encode like a vector, no allocation of their own when decoding
	Slice,
	/// `bytes::Bytes`
	Bytes,
}

#[derive(Clone, Copy, Debug, PartialEq, Eq, Hash)]
pub enum HolderKind {
	Box,
	Rc,
	Arc,
	/// `&T`, `&mut T`, `Cow<T>`, `Ref<T,U>`: transparent, no allocation
	Ref,
}

#[derive(Clone, Debug, PartialEq)]
pub struct Field {
	pub ty: Ty,
	pub skip: bool,
}

#[derive(Clone, Debug, PartialEq)]
pub struct Variant {
	pub name: String,
	/// `None` = `#[codec(skip)]`
	pub index: Option<u8>,
	pub fields: Vec<Field>,
}

#[derive(Clone, Debug, PartialEq)]
pub enum Ty {
	U(u32),
	I(u32),
	F32,
	F64,
	Bool,
	Unit,
	Compact(u32),
	CompactUnit,
	NzU(u32),
	NzI(u32),
	Option(Box<Ty>),
	Result(Box<Ty>, Box<Ty>),
	OptionBool,
	Seq { kind: SeqKind, elem: Box<Ty>, elem_mem: usize },
	Map { k: Box<Ty>, v: Box<Ty>, entry_mem: usize },
	/// `[T; N]`, `GenericArray<T, N>`
	Array(Box<Ty>, usize),
	Tuple(Vec<Ty>),
	Str,
	Holder { kind: HolderKind, inner: Box<Ty>, mem: usize },
	Phantom,
	Duration,
	Range(Box<Ty>),
	RangeIncl(Box<Ty>),
	Bits { store: u32, msb0: bool },
	Struct { name: String, fields: Vec<Field> },
	Enum { name: String, variants: Vec<Variant> },
	/// back-reference to a registered (recursive) definition
	Ref(String),
}

#[derive(Clone, Debug)]
pub enum Val {
	U(u128),
	I(i128),
	F32(u32),
	F64(u64),
	Bool(bool),
	Unit,
	Opt(Option<Box<Val>>),
	Res(Result<Box<Val>, Box<Val>>),
	OptBool(Option<bool>),
	/// homogeneous sequence (collections, arrays)
	Seq(Vec<Val>),
	/// homogeneous sequence of `u8` (and strings)
	Bytes(Vec<u8>),
	/// `n` copies of a zero-width element
	Repeat(u64, Box<Val>),
	Map(Vec<(Val, Val)>),
	/// tuples, struct fields (skipped fields keep their position), ranges, durations
	Tuple(Vec<Val>),
	/// position of the variant in the definition (skipped variants included) + its fields
	Variant(usize, Vec<Val>),
	Bits(Vec<bool>),
}

// ---------------------------------------------------------------------------------------------
// registry for recursive definitions

fn registry() -> &'static RwLock<HashMap<String, Arc<Ty>>> {
	static REG: OnceLock<RwLock<HashMap<String, Arc<Ty>>>> = OnceLock::new();
	REG.get_or_init(|| RwLock::new(HashMap::new()))
}

pub fn register(name: &str, ty: Ty) {
	registry().write().unwrap().entry(name.to_string()).or_insert_with(|| Arc::new(ty));
}

pub fn lookup(name: &str) -> Arc<Ty> {
	registry()
		.read()
		.unwrap()
		.get(name)
		.cloned()
		.unwrap_or_else(|| panic!("model: unregistered recursive type {name}"))
}

// ---------------------------------------------------------------------------------------------

impl Ty {
	pub fn vec(elem: Ty, elem_mem: usize) -> Ty {
		Ty::Seq { kind: SeqKind::Vec, elem: Box::new(elem), elem_mem }
	}

	pub fn resolve(&self) -> std::borrow::Cow<'_, Ty> {
		match self {
			Ty::Ref(n) => std::borrow::Cow::Owned((*lookup(n)).clone()),
			_ => std::borrow::Cow::Borrowed(self),
		}
	}

	/// The encoding is always empty (and the type has exactly one value on the wire).
	pub fn zero_width(&self) -> bool {
		match self {
			Ty::Unit | Ty::Phantom | Ty::CompactUnit => true,
			Ty::Tuple(ts) => ts.iter().all(|t| t.zero_width()),
			Ty::Struct { fields, .. } => fields.iter().all(|f| f.skip || f.ty.zero_width()),
			Ty::Array(t, n) => *n == 0 || t.zero_width(),
			Ty::Holder { inner, .. } => inner.zero_width(),
			Ty::Ref(_) => false,
			_ => false,
		}
	}

	/// Is a recursive definition reachable (then static bounds are infinite)?
	pub fn is_recursive(&self) -> bool {
		match self {
			Ty::Ref(_) => true,
			Ty::Option(t) | Ty::Range(t) | Ty::RangeIncl(t) | Ty::Array(t, _) => t.is_recursive(),
			Ty::Result(a, b) => a.is_recursive() || b.is_recursive(),
			Ty::Seq { elem, .. } => elem.is_recursive(),
			Ty::Map { k, v, .. } => k.is_recursive() || v.is_recursive(),
			Ty::Tuple(ts) => ts.iter().any(|t| t.is_recursive()),
			Ty::Holder { inner, .. } => inner.is_recursive(),
			Ty::Struct { fields, .. } => fields.iter().any(|f| !f.skip && f.ty.is_recursive()),
			Ty::Enum { variants, .. } =>
				variants.iter().any(|v| v.fields.iter().any(|f| !f.skip && f.ty.is_recursive())),
			_ => false,
		}
	}

	/// Minimum encoded length of any value.
	pub fn min_len(&self) -> usize {
		match self {
			Ty::U(b) | Ty::I(b) | Ty::NzU(b) | Ty::NzI(b) => (*b / 8) as usize,
			Ty::F32 => 4,
			Ty::F64 => 8,
			Ty::Bool | Ty::OptionBool => 1,
			Ty::Unit | Ty::Phantom | Ty::CompactUnit => 0,
			Ty::Compact(_) => 1,
			Ty::Option(_) => 1,
			Ty::Result(a, b) => 1 + a.min_len().min(b.min_len()),
			Ty::Seq { .. } | Ty::Map { .. } | Ty::Str | Ty::Bits { .. } => 1,
			Ty::Array(t, n) => t.min_len() * n,
			Ty::Tuple(ts) => ts.iter().map(|t| t.min_len()).sum(),
			Ty::Holder { inner, .. } => inner.min_len(),
			Ty::Duration => 12,
			Ty::Range(t) | Ty::RangeIncl(t) => 2 * t.min_len(),
			Ty::Struct { fields, .. } =>
				fields.iter().filter(|f| !f.skip).map(|f| f.ty.min_len()).sum(),
			Ty::Enum { .. } => 1,
			Ty::Ref(_) => 1,
		}
	}

	/// Maximum encoded length over all values (`None` = unbounded).
	pub fn max_len(&self) -> Option<usize> {
		Some(match self {
			Ty::U(b) | Ty::I(b) | Ty::NzU(b) | Ty::NzI(b) => (*b / 8) as usize,
			Ty::F32 => 4,
			Ty::F64 => 8,
			Ty::Bool | Ty::OptionBool => 1,
			Ty::Unit | Ty::Phantom | Ty::CompactUnit => 0,
			Ty::Compact(8) => 2,
			Ty::Compact(16) => 4,
			Ty::Compact(32) => 5,
			Ty::Compact(64) => 9,
			Ty::Compact(_) => 17,
			Ty::Option(t) => 1 + t.max_len()?,
			Ty::Result(a, b) => 1 + a.max_len()?.max(b.max_len()?),
			Ty::Seq { .. } | Ty::Map { .. } | Ty::Str | Ty::Bits { .. } => return None,
			Ty::Array(t, n) => t.max_len()?.checked_mul(*n)?,
			Ty::Tuple(ts) => {
				let mut s = 0usize;
				for t in ts {
					s += t.max_len()?;
				}
				s
			},
			Ty::Holder { inner, .. } => inner.max_len()?,
			Ty::Duration => 12,
			Ty::Range(t) | Ty::RangeIncl(t) => 2 * t.max_len()?,
			Ty::Struct { fields, .. } => {
				let mut s = 0usize;
				for f in fields.iter().filter(|f| !f.skip) {
					s += f.ty.max_len()?;
				}
				s
			},
			Ty::Enum { variants, .. } => {
				let mut m = 0usize;
				for v in variants.iter().filter(|v| v.index.is_some()) {
					let mut s = 0usize;
					for f in v.fields.iter().filter(|f| !f.skip) {
						s += f.ty.max_len()?;
					}
					m = m.max(s);
				}
				1 + m
			},
			Ty::Ref(_) => return None,
		})
	}

	/// Static nesting of heap containers (recursive references count once).
	pub fn static_depth(&self) -> usize {
		match self {
			Ty::Option(t) | Ty::Range(t) | Ty::RangeIncl(t) | Ty::Array(t, _) => t.static_depth(),
			Ty::Result(a, b) => a.static_depth().max(b.static_depth()),
			Ty::Seq { elem, .. } => 1 + elem.static_depth(),
			Ty::Map { k, v, .. } => 1 + k.static_depth().max(v.static_depth()),
			Ty::Str | Ty::Bits { .. } => 1,
			Ty::Tuple(ts) => ts.iter().map(|t| t.static_depth()).max().unwrap_or(0),
			Ty::Holder { kind, inner, .. } =>
				inner.static_depth() + usize::from(*kind != HolderKind::Ref),
			Ty::Struct { fields, .. } =>
				fields.iter().filter(|f| !f.skip).map(|f| f.ty.static_depth()).max().unwrap_or(0),
			Ty::Enum { variants, .. } => variants
				.iter()
				.flat_map(|v| v.fields.iter())
				.filter(|f| !f.skip)
				.map(|f| f.ty.static_depth())
				.max()
				.unwrap_or(0),
			Ty::Ref(_) => 1,
			_ => 0,
		}
	}

	/// Largest ratio (in-memory bytes of an element) / (minimum encoded bytes of an element) over
	/// all sequence-like nodes, i.e. how much memory one input byte can legitimately demand.
	pub fn expansion(&self) -> usize {
		fn per(elem_mem: usize, min_len: usize) -> usize {
			if min_len == 0 {
				0 // zero-width elements: handled separately (C09 domain decision)
			} else {
				(elem_mem + min_len - 1) / min_len
			}
		}
		match self {
			Ty::Option(t) | Ty::Range(t) | Ty::RangeIncl(t) | Ty::Array(t, _) => t.expansion(),
			Ty::Result(a, b) => a.expansion().max(b.expansion()),
			Ty::Seq { elem, elem_mem, kind } => {
				// linked lists carry two pointers per node
				let extra = if *kind == SeqKind::LinkedList { 16 } else { 0 };
				per(*elem_mem + extra, elem.min_len()).max(elem.expansion())
			},
			Ty::Map { k, v, entry_mem } =>
				per(*entry_mem * 2 + 16, k.min_len() + v.min_len()).max(k.expansion()).max(v.expansion()),
			Ty::Str => 1,
			Ty::Bits { .. } => 1,
			Ty::Tuple(ts) => ts.iter().map(|t| t.expansion()).max().unwrap_or(0),
			Ty::Holder { inner, mem, .. } => per(*mem, inner.min_len()).max(inner.expansion()),
			Ty::Struct { fields, .. } =>
				fields.iter().filter(|f| !f.skip).map(|f| f.ty.expansion()).max().unwrap_or(0),
			Ty::Enum { variants, .. } => variants
				.iter()
				.flat_map(|v| v.fields.iter())
				.filter(|f| !f.skip)
				.map(|f| f.ty.expansion())
				.max()
				.unwrap_or(0),
			Ty::Ref(n) => {
				// one level of unfolding is enough: element sizes repeat
				let t = lookup(n);
				match &*t {
					Ty::Enum { .. } | Ty::Struct { .. } => 64,
					_ => 64,
				}
			},
			_ => 0,
		}
	}

	/// Does a sequence with zero-width elements but non-zero in-memory element or node size occur
	/// (the C09 domain exclusion)?
	pub fn has_zero_width_sized_elems(&self) -> bool {
		match self {
			Ty::Option(t) | Ty::Range(t) | Ty::RangeIncl(t) | Ty::Array(t, _) =>
				t.has_zero_width_sized_elems(),
			Ty::Result(a, b) => a.has_zero_width_sized_elems() || b.has_zero_width_sized_elems(),
			Ty::Seq { elem, elem_mem, kind } =>
				(elem.zero_width() &&
					(*elem_mem > 0 || matches!(kind, SeqKind::LinkedList | SeqKind::BTreeSet))) ||
					elem.has_zero_width_sized_elems(),
			Ty::Map { k, v, .. } =>
				(k.zero_width() && v.zero_width()) ||
					k.has_zero_width_sized_elems() ||
					v.has_zero_width_sized_elems(),
			Ty::Tuple(ts) => ts.iter().any(|t| t.has_zero_width_sized_elems()),
			Ty::Holder { inner, .. } => inner.has_zero_width_sized_elems(),
			Ty::Struct { fields, .. } =>
				fields.iter().any(|f| !f.skip && f.ty.has_zero_width_sized_elems()),
			Ty::Enum { variants, .. } => variants
				.iter()
				.flat_map(|v| v.fields.iter())
				.any(|f| !f.skip && f.ty.has_zero_width_sized_elems()),
			_ => false,
		}
	}

	/// Value a `#[codec(skip)]` field takes after decoding (`Default::default()`), also the unique
	/// value of zero-width types.
	pub fn default_val(&self) -> Val {
		match self {
			Ty::U(_) | Ty::Compact(_) => Val::U(0),
			Ty::I(_) => Val::I(0),
			Ty::F32 => Val::F32(0),
			Ty::F64 => Val::F64(0),
			Ty::Bool => Val::Bool(false),
			Ty::Unit | Ty::Phantom | Ty::CompactUnit => Val::Unit,
			Ty::Option(_) => Val::Opt(None),
			Ty::OptionBool => Val::OptBool(None),
			Ty::Seq { elem, .. } =>
				if **elem == Ty::U(8) {
					Val::Bytes(vec![])
				} else {
					Val::Seq(vec![])
				},
			Ty::Map { .. } => Val::Map(vec![]),
			Ty::Str => Val::Bytes(vec![]),
			Ty::Array(t, n) =>
				if **t == Ty::U(8) {
					Val::Bytes(vec![0; *n])
				} else if t.zero_width() {
					Val::Repeat(*n as u64, Box::new(t.default_val()))
				} else {
					Val::Seq((0..*n).map(|_| t.default_val()).collect())
				},
			Ty::Tuple(ts) => Val::Tuple(ts.iter().map(|t| t.default_val()).collect()),
			Ty::Holder { inner, .. } => inner.default_val(),
			Ty::Duration => Val::Tuple(vec![Val::U(0), Val::U(0)]),
			Ty::Range(t) | Ty::RangeIncl(t) => Val::Tuple(vec![t.default_val(), t.default_val()]),
			Ty::Bits { .. } => Val::Bits(vec![]),
			Ty::Struct { fields, .. } =>
				Val::Tuple(fields.iter().map(|f| f.ty.default_val()).collect()),
			other => panic!("model: no default value for {other:?}"),
		}
	}

	pub fn short_name(&self) -> String {
		match self {
			Ty::U(b) => format!("u{b}"),
			Ty::I(b) => format!("i{b}"),
			Ty::F32 => "f32".into(),
			Ty::F64 => "f64".into(),
			Ty::Bool => "bool".into(),
			Ty::Unit => "()".into(),
			Ty::Compact(b) => format!("Compact<u{b}>"),
			Ty::CompactUnit => "Compact<()>".into(),
			Ty::NzU(b) => format!("NonZeroU{b}"),
			Ty::NzI(b) => format!("NonZeroI{b}"),
			Ty::Option(t) => format!("Option<{}>", t.short_name()),
			Ty::Result(a, b) => format!("Result<{},{}>", a.short_name(), b.short_name()),
			Ty::OptionBool => "OptionBool".into(),
			Ty::Seq { kind, elem, .. } => format!("{kind:?}<{}>", elem.short_name()),
			Ty::Map { k, v, .. } => format!("BTreeMap<{},{}>", k.short_name(), v.short_name()),
			Ty::Array(t, n) => format!("[{};{n}]", t.short_name()),
			Ty::Tuple(ts) =>
				format!("({})", ts.iter().map(|t| t.short_name()).collect::<Vec<_>>().join(",")),
			Ty::Str => "String".into(),
			Ty::Holder { kind, inner, .. } => format!("{kind:?}<{}>", inner.short_name()),
			Ty::Phantom => "PhantomData".into(),
			Ty::Duration => "Duration".into(),
			Ty::Range(t) => format!("Range<{}>", t.short_name()),
			Ty::RangeIncl(t) => format!("RangeInclusive<{}>", t.short_name()),
			Ty::Bits { store, msb0 } =>
				format!("Bits<u{store},{}>", if *msb0 { "Msb0" } else { "Lsb0" }),
			Ty::Struct { name, .. } | Ty::Enum { name, .. } | Ty::Ref(name) => name.clone(),
		}
	}

	/// Family label for class histograms.
	pub fn family(&self) -> &'static str {
		match self {
			Ty::U(_) | Ty::I(_) => "int",
			Ty::F32 | Ty::F64 => "float",
			Ty::Bool => "bool",
			Ty::Unit | Ty::Phantom | Ty::CompactUnit => "unit",
			Ty::Compact(_) => "compact",
			Ty::NzU(_) | Ty::NzI(_) => "nonzero",
			Ty::Option(_) => "option",
			Ty::Result(..) => "result",
			Ty::OptionBool => "optionbool",
			Ty::Seq { kind, .. } => match kind {
				SeqKind::Vec => "vec",
				SeqKind::VecDeque => "vecdeque",
				SeqKind::LinkedList => "linkedlist",
				SeqKind::BinaryHeap => "binaryheap",
				SeqKind::BTreeSet => "btreeset",
				SeqKind::Slice => "slice",
				SeqKind::Bytes => "bytes",
			},
			Ty::Map { .. } => "btreemap",
			Ty::Array(..) => "array",
			Ty::Tuple(_) => "tuple",
			Ty::Str => "string",
			Ty::Holder { .. } => "holder",
			Ty::Duration => "duration",
			Ty::Range(_) | Ty::RangeIncl(_) => "range",
			Ty::Bits { .. } => "bits",
			Ty::Struct { .. } => "struct",
			Ty::Enum { .. } => "enum",
			Ty::Ref(_) => "recursive",
		}
	}
}

// ---------------------------------------------------------------------------------------------
// values

impl Val {
	pub fn some(v: Val) -> Val {
		Val::Opt(Some(Box::new(v)))
	}
	pub fn ok(v: Val) -> Val {
		Val::Res(Ok(Box::new(v)))
	}
	pub fn err(v: Val) -> Val {
		Val::Res(Err(Box::new(v)))
	}

	pub fn as_u(&self) -> u128 {
		match self {
			Val::U(x) => *x,
			other => panic!("model: expected U, got {other:?}"),
		}
	}
	pub fn as_i(&self) -> i128 {
		match self {
			Val::I(x) => *x,
			other => panic!("model: expected I, got {other:?}"),
		}
	}
	pub fn as_tuple(&self) -> &[Val] {
		match self {
			Val::Tuple(x) => x,
			other => panic!("model: expected Tuple, got {}", other.brief(80)),
		}
	}

	/// Number of elements of a homogeneous sequence value.
	pub fn seq_len(&self) -> u64 {
		match self {
			Val::Seq(v) => v.len() as u64,
			Val::Bytes(v) => v.len() as u64,
			Val::Repeat(n, _) => *n,
			Val::Map(m) => m.len() as u64,
			Val::Bits(b) => b.len() as u64,
			other => panic!("model: expected sequence, got {}", other.brief(80)),
		}
	}

	/// Materialised element list of a homogeneous sequence (panics on huge `Repeat`).
	pub fn seq_items(&self) -> Vec<Val> {
		match self {
			Val::Seq(v) => v.clone(),
			Val::Bytes(v) => v.iter().map(|b| Val::U(u128::from(*b))).collect(),
			Val::Repeat(n, v) => {
				assert!(*n <= 1 << 24, "model: refusing to materialise {n} elements");
				(0..*n).map(|_| (**v).clone()).collect()
			},
			other => panic!("model: expected sequence, got {}", other.brief(80)),
		}
	}

	/// Short rendering for evidence samples and replays.
	pub fn brief(&self, max: usize) -> String {
		let s = format!("{self:?}");
		if s.len() <= max {
			s
		} else {
			let mut cut = max;
			while !s.is_char_boundary(cut) {
				cut -= 1;
			}
			format!("{}…(+{} chars)", &s[..cut], s.len() - cut)
		}
	}
}

/// Structural equality, tolerant of the three representations of homogeneous sequences.
pub fn eqv(a: &Val, b: &Val) -> bool {
	use Val::*;
	match (a, b) {
		(U(x), U(y)) => x == y,
		(I(x), I(y)) => x == y,
		(F32(x), F32(y)) => x == y,
		(F64(x), F64(y)) => x == y,
		(Bool(x), Bool(y)) => x == y,
		(Unit, Unit) => true,
		(Opt(None), Opt(None)) => true,
		(Opt(Some(x)), Opt(Some(y))) => eqv(x, y),
		(Res(Ok(x)), Res(Ok(y))) => eqv(x, y),
		(Res(Err(x)), Res(Err(y))) => eqv(x, y),
		(OptBool(x), OptBool(y)) => x == y,
		(Bytes(x), Bytes(y)) => x == y,
		(Bits(x), Bits(y)) => x == y,
		(Repeat(n, x), Repeat(m, y)) => n == m && (*n == 0 || eqv(x, y)),
		(Seq(x), Seq(y)) => x.len() == y.len() && x.iter().zip(y).all(|(p, q)| eqv(p, q)),
		(Seq(x), Bytes(y)) | (Bytes(y), Seq(x)) =>
			x.len() == y.len() &&
				x.iter().zip(y).all(|(p, q)| matches!(p, U(v) if *v == u128::from(*q))),
		(Seq(x), Repeat(n, y)) | (Repeat(n, y), Seq(x)) =>
			x.len() as u64 == *n && x.iter().all(|p| eqv(p, y)),
		(Bytes(x), Repeat(n, _)) | (Repeat(n, _), Bytes(x)) => x.is_empty() && *n == 0,
		(Map(x), Map(y)) =>
			x.len() == y.len() && x.iter().zip(y).all(|((k, v), (l, w))| eqv(k, l) && eqv(v, w)),
		(Tuple(x), Tuple(y)) => x.len() == y.len() && x.iter().zip(y).all(|(p, q)| eqv(p, q)),
		(Variant(i, x), Variant(j, y)) =>
			i == j && x.len() == y.len() && x.iter().zip(y).all(|(p, q)| eqv(p, q)),
		_ => false,
	}
}

/// Total order on values of key types, consistent with Rust's derived/primitive `Ord` for the
/// key types the zoo uses (integers, bool, strings, byte vectors, tuples, arrays, options).
pub fn cmp_val(a: &Val, b: &Val) -> Ordering {
	use Val::*;
	match (a, b) {
		(U(x), U(y)) => x.cmp(y),
		(I(x), I(y)) => x.cmp(y),
		(Bool(x), Bool(y)) => x.cmp(y),
		(Unit, Unit) => Ordering::Equal,
		(Opt(None), Opt(None)) => Ordering::Equal,
		(Opt(None), Opt(Some(_))) => Ordering::Less,
		(Opt(Some(_)), Opt(None)) => Ordering::Greater,
		(Opt(Some(x)), Opt(Some(y))) => cmp_val(x, y),
		(Bytes(x), Bytes(y)) => x.cmp(y),
		(Seq(x), Seq(y)) | (Tuple(x), Tuple(y)) => {
			for (p, q) in x.iter().zip(y) {
				let o = cmp_val(p, q);
				if o != Ordering::Equal {
					return o;
				}
			}
			x.len().cmp(&y.len())
		},
		(Repeat(n, _), Repeat(m, _)) => n.cmp(m),
		(Variant(i, x), Variant(j, y)) => i.cmp(j).then_with(|| {
			for (p, q) in x.iter().zip(y) {
				let o = cmp_val(p, q);
				if o != Ordering::Equal {
					return o;
				}
			}
			x.len().cmp(&y.len())
		}),
		_ => panic!("model: unordered key values {} / {}", a.brief(60), b.brief(60)),
	}
}

/// Canonical form used for value comparison: heaps become sorted multisets (heap order is
/// history-dependent by nature), everything else is left alone.
pub fn normalize(ty: &Ty, v: &Val) -> Val {
	match (ty, v) {
		(Ty::Ref(n), _) => normalize(&lookup(n), v),
		(Ty::Seq { kind: SeqKind::BinaryHeap, elem, .. }, _) => match v {
			Val::Seq(items) => {
				let mut items: Vec<Val> = items.iter().map(|x| normalize(elem, x)).collect();
				items.sort_by(cmp_val);
				Val::Seq(items)
			},
			Val::Bytes(b) => {
				let mut b = b.clone();
				b.sort();
				Val::Bytes(b)
			},
			_ => v.clone(),
		},
		// one spelling for sequences of zero-width elements, whichever side built them
		(Ty::Seq { elem, .. } | Ty::Array(elem, _), Val::Seq(items)) if elem.zero_width() => Val::Repeat(
			items.len() as u64,
			Box::new(items.first().map(|x| normalize(elem, x)).unwrap_or_else(|| elem.default_val())),
		),
		(Ty::Seq { elem, .. } | Ty::Array(elem, _), Val::Repeat(n, x)) if elem.zero_width() || *n > 1 << 20 =>
			Val::Repeat(*n, Box::new(if *n == 0 { elem.default_val() } else { normalize(elem, x) })),
		(Ty::Seq { elem, .. } | Ty::Array(elem, _), Val::Repeat(n, x)) =>
			Val::Seq((0..*n).map(|_| normalize(elem, x)).collect()),
		(Ty::Seq { elem, .. }, Val::Seq(items)) =>
			Val::Seq(items.iter().map(|x| normalize(elem, x)).collect()),
		(Ty::Array(elem, _), Val::Seq(items)) =>
			Val::Seq(items.iter().map(|x| normalize(elem, x)).collect()),
		(Ty::Map { k, v: vt, .. }, Val::Map(m)) =>
			Val::Map(m.iter().map(|(a, b)| (normalize(k, a), normalize(vt, b))).collect()),
		(Ty::Option(t), Val::Opt(Some(x))) => Val::some(normalize(t, x)),
		(Ty::Result(t, _), Val::Res(Ok(x))) => Val::ok(normalize(t, x)),
		(Ty::Result(_, t), Val::Res(Err(x))) => Val::err(normalize(t, x)),
		(Ty::Tuple(ts), Val::Tuple(xs)) =>
			Val::Tuple(ts.iter().zip(xs).map(|(t, x)| normalize(t, x)).collect()),
		(Ty::Range(t) | Ty::RangeIncl(t), Val::Tuple(xs)) =>
			Val::Tuple(xs.iter().map(|x| normalize(t, x)).collect()),
		(Ty::Holder { inner, .. }, _) => normalize(inner, v),
		(Ty::Struct { fields, .. }, Val::Tuple(xs)) =>
			Val::Tuple(fields.iter().zip(xs).map(|(f, x)| normalize(&f.ty, x)).collect()),
		(Ty::Enum { variants, .. }, Val::Variant(i, xs)) => Val::Variant(
			*i,
			variants[*i].fields.iter().zip(xs).map(|(f, x)| normalize(&f.ty, x)).collect(),
		),
		_ => v.clone(),
	}
}

/// What decoding the encoding of `v` must yield: skipped fields reset to their default.
pub fn after_roundtrip(ty: &Ty, v: &Val) -> Val {
	match (ty, v) {
		(Ty::Ref(n), _) => after_roundtrip(&lookup(n), v),
		(Ty::Seq { elem, .. } | Ty::Array(elem, _), Val::Seq(items)) =>
			Val::Seq(items.iter().map(|x| after_roundtrip(elem, x)).collect()),
		(Ty::Seq { elem, .. } | Ty::Array(elem, _), Val::Repeat(n, x)) =>
			Val::Repeat(*n, Box::new(after_roundtrip(elem, x))),
		(Ty::Map { k, v: vt, .. }, Val::Map(m)) =>
			Val::Map(m.iter().map(|(a, b)| (after_roundtrip(k, a), after_roundtrip(vt, b))).collect()),
		(Ty::Option(t), Val::Opt(Some(x))) => Val::some(after_roundtrip(t, x)),
		(Ty::Result(t, _), Val::Res(Ok(x))) => Val::ok(after_roundtrip(t, x)),
		(Ty::Result(_, t), Val::Res(Err(x))) => Val::err(after_roundtrip(t, x)),
		(Ty::Tuple(ts), Val::Tuple(xs)) =>
			Val::Tuple(ts.iter().zip(xs).map(|(t, x)| after_roundtrip(t, x)).collect()),
		(Ty::Range(t) | Ty::RangeIncl(t), Val::Tuple(xs)) =>
			Val::Tuple(xs.iter().map(|x| after_roundtrip(t, x)).collect()),
		(Ty::Holder { inner, .. }, _) => after_roundtrip(inner, v),
		(Ty::Struct { fields, .. }, Val::Tuple(xs)) => Val::Tuple(
			fields
				.iter()
				.zip(xs)
				.map(|(f, x)| if f.skip { f.ty.default_val() } else { after_roundtrip(&f.ty, x) })
				.collect(),
		),
		(Ty::Enum { variants, .. }, Val::Variant(i, xs)) => Val::Variant(
			*i,
			variants[*i]
				.fields
				.iter()
				.zip(xs)
				.map(|(f, x)| if f.skip { f.ty.default_val() } else { after_roundtrip(&f.ty, x) })
				.collect(),
		),
		_ => v.clone(),
	}
}

/// Does the value sit in (or contain) an enum variant marked as skipped? Those have no encoding.
pub fn contains_skipped_variant(ty: &Ty, v: &Val) -> bool {
	match (ty, v) {
		(Ty::Ref(n), _) => contains_skipped_variant(&lookup(n), v),
		(Ty::Seq { elem, .. } | Ty::Array(elem, _), Val::Seq(items)) =>
			items.iter().any(|x| contains_skipped_variant(elem, x)),
		(Ty::Map { k, v: vt, .. }, Val::Map(m)) =>
			m.iter().any(|(a, b)| contains_skipped_variant(k, a) || contains_skipped_variant(vt, b)),
		(Ty::Option(t), Val::Opt(Some(x))) => contains_skipped_variant(t, x),
		(Ty::Result(t, _), Val::Res(Ok(x))) => contains_skipped_variant(t, x),
		(Ty::Result(_, t), Val::Res(Err(x))) => contains_skipped_variant(t, x),
		(Ty::Tuple(ts), Val::Tuple(xs)) =>
			ts.iter().zip(xs).any(|(t, x)| contains_skipped_variant(t, x)),
		(Ty::Range(t) | Ty::RangeIncl(t), Val::Tuple(xs)) =>
			xs.iter().any(|x| contains_skipped_variant(t, x)),
		(Ty::Holder { inner, .. }, _) => contains_skipped_variant(inner, v),
		(Ty::Struct { fields, .. }, Val::Tuple(xs)) => fields
			.iter()
			.zip(xs)
			.any(|(f, x)| !f.skip && contains_skipped_variant(&f.ty, x)),
		(Ty::Enum { variants, .. }, Val::Variant(i, xs)) =>
			variants[*i].index.is_none() ||
				variants[*i]
					.fields
					.iter()
					.zip(xs)
					.any(|(f, x)| !f.skip && contains_skipped_variant(&f.ty, x)),
		_ => false,
	}
}

/// `D_hi`: nesting depth of heap containers in the value (every heap container counts one level;
/// siblings do not add).
pub fn depth_hi(ty: &Ty, v: &Val) -> u32 {
	depth_impl(ty, v, false)
}

/// `D_lo`: the same count without the leaf containers the crate is documented (and tested: its own
/// suite decodes `Vec<Vec<Vec<Vec<u8>>>>` at limit 3) not to count: vectors, deques, heaps and byte
/// buffers of bulk-read primitives (integers and floats), strings and bit sequences. Every other
/// heap container — lists, tree maps and sets, boxes and shared pointers, vectors of anything that is
/// not a bulk-read primitive — is a level the depth limit must see.
pub fn depth_lo(ty: &Ty, v: &Val) -> u32 {
	depth_impl(ty, v, true)
}

fn uncounted_leaf(kind: SeqKind, elem: &Ty) -> bool {
	matches!(kind, SeqKind::Vec | SeqKind::VecDeque | SeqKind::BinaryHeap | SeqKind::Slice | SeqKind::Bytes) &&
		matches!(elem, Ty::U(_) | Ty::I(_) | Ty::F32 | Ty::F64)
}

fn depth_impl(ty: &Ty, v: &Val, counted: bool) -> u32 {
	match (ty, v) {
		(Ty::Ref(n), _) => depth_impl(&lookup(n), v, counted),
		(Ty::Seq { kind, elem, .. }, _) if counted && uncounted_leaf(*kind, elem) => 0,
		(Ty::Str | Ty::Bits { .. }, _) if counted => 0,
		(Ty::Seq { elem, .. }, Val::Seq(items)) =>
			1 + items.iter().map(|x| depth_impl(elem, x, counted)).max().unwrap_or(0),
		(Ty::Seq { elem, .. }, Val::Repeat(n, x)) =>
			1 + if *n > 0 { depth_impl(elem, x, counted) } else { 0 },
		(Ty::Seq { .. }, _) => 1,
		(Ty::Str | Ty::Bits { .. }, _) => 1,
		(Ty::Map { k, v: vt, .. }, Val::Map(m)) =>
			1 + m.iter().map(|(a, b)| depth_impl(k, a, counted).max(depth_impl(vt, b, counted))).max().unwrap_or(0),
		(Ty::Array(elem, _), Val::Seq(items)) =>
			items.iter().map(|x| depth_impl(elem, x, counted)).max().unwrap_or(0),
		(Ty::Array(elem, _), Val::Repeat(n, x)) =>
			if *n > 0 {
				depth_impl(elem, x, counted)
			} else {
				0
			},
		(Ty::Option(t), Val::Opt(Some(x))) => depth_impl(t, x, counted),
		(Ty::Result(t, _), Val::Res(Ok(x))) => depth_impl(t, x, counted),
		(Ty::Result(_, t), Val::Res(Err(x))) => depth_impl(t, x, counted),
		(Ty::Tuple(ts), Val::Tuple(xs)) =>
			ts.iter().zip(xs).map(|(t, x)| depth_impl(t, x, counted)).max().unwrap_or(0),
		(Ty::Range(t) | Ty::RangeIncl(t), Val::Tuple(xs)) =>
			xs.iter().map(|x| depth_impl(t, x, counted)).max().unwrap_or(0),
		(Ty::Holder { kind, inner, .. }, _) =>
			depth_impl(inner, v, counted) + u32::from(*kind != HolderKind::Ref),
		(Ty::Struct { fields, .. }, Val::Tuple(xs)) => fields
			.iter()
			.zip(xs)
			.filter(|(f, _)| !f.skip)
			.map(|(f, x)| depth_impl(&f.ty, x, counted))
			.max()
			.unwrap_or(0),
		(Ty::Enum { variants, .. }, Val::Variant(i, xs)) => variants[*i]
			.fields
			.iter()
			.zip(xs)
			.filter(|(f, _)| !f.skip)
			.map(|(f, x)| depth_impl(&f.ty, x, counted))
			.max()
			.unwrap_or(0),
		_ => 0,
	}
}

/// Lower bound on the heap bytes of decoded data a value holds (C12): element count × element
/// size for vectors/deques/heaps/lists, boxed value size for boxes and shared pointers, byte
/// length for strings/byte buffers/bit storage, half of count × entry size for tree maps/sets.
pub fn heap_payload(ty: &Ty, v: &Val) -> u64 {
	match (ty, v) {
		(Ty::Ref(n), _) => heap_payload(&lookup(n), v),
		(Ty::Seq { kind, elem, elem_mem }, _) => {
			let n = v.seq_len();
			let own = match kind {
				SeqKind::BTreeSet => n * (*elem_mem as u64) / 2,
				SeqKind::Slice => 0,
				_ => n * (*elem_mem as u64),
			};
			let inner = match v {
				Val::Seq(items) => items.iter().map(|x| heap_payload(elem, x)).sum(),
				Val::Repeat(n, x) => n * heap_payload(elem, x),
				_ => 0,
			};
			own + inner
		},
		(Ty::Str, Val::Bytes(b)) => b.len() as u64,
		(Ty::Bits { store, .. }, Val::Bits(b)) => {
			let words = (b.len() as u64 + u64::from(*store) - 1) / u64::from(*store);
			words * u64::from(*store / 8)
		},
		(Ty::Map { k, v: vt, entry_mem }, Val::Map(m)) =>
			(m.len() as u64) * (*entry_mem as u64) / 2 +
				m.iter().map(|(a, b)| heap_payload(k, a) + heap_payload(vt, b)).sum::<u64>(),
		(Ty::Array(elem, _), Val::Seq(items)) => items.iter().map(|x| heap_payload(elem, x)).sum(),
		(Ty::Array(elem, _), Val::Repeat(n, x)) => n * heap_payload(elem, x),
		(Ty::Option(t), Val::Opt(Some(x))) => heap_payload(t, x),
		(Ty::Result(t, _), Val::Res(Ok(x))) => heap_payload(t, x),
		(Ty::Result(_, t), Val::Res(Err(x))) => heap_payload(t, x),
		(Ty::Tuple(ts), Val::Tuple(xs)) => ts.iter().zip(xs).map(|(t, x)| heap_payload(t, x)).sum(),
		(Ty::Range(t) | Ty::RangeIncl(t), Val::Tuple(xs)) =>
			xs.iter().map(|x| heap_payload(t, x)).sum(),
		(Ty::Holder { kind, inner, mem }, _) =>
			heap_payload(inner, v) + if *kind != HolderKind::Ref { *mem as u64 } else { 0 },
		(Ty::Struct { fields, .. }, Val::Tuple(xs)) => fields
			.iter()
			.zip(xs)
			.filter(|(f, _)| !f.skip)
			.map(|(f, x)| heap_payload(&f.ty, x))
			.sum(),
		(Ty::Enum { variants, .. }, Val::Variant(i, xs)) => variants[*i]
			.fields
			.iter()
			.zip(xs)
			.filter(|(f, _)| !f.skip)
			.map(|(f, x)| heap_payload(&f.ty, x))
			.sum(),
		_ => 0,
	}
}

/// "Holds no heap data" in the conservative sense of C12: no non-empty collection, string, byte
/// buffer or bit sequence anywhere, no tree node, and no box/shared pointer to a non-zero-sized
/// type. Only then the oracle demands tracked usage zero.
pub fn holds_no_heap(ty: &Ty, v: &Val) -> bool {
	match (ty, v) {
		(Ty::Ref(n), _) => holds_no_heap(&lookup(n), v),
		(Ty::Seq { .. }, _) => v.seq_len() == 0,
		(Ty::Str, Val::Bytes(b)) => b.is_empty(),
		(Ty::Bits { .. }, Val::Bits(b)) => b.is_empty(),
		(Ty::Map { .. }, Val::Map(m)) => m.is_empty(),
		(Ty::Array(elem, _), Val::Seq(items)) => items.iter().all(|x| holds_no_heap(elem, x)),
		(Ty::Array(elem, _), Val::Repeat(n, x)) => *n == 0 || holds_no_heap(elem, x),
		(Ty::Option(t), Val::Opt(Some(x))) => holds_no_heap(t, x),
		(Ty::Result(t, _), Val::Res(Ok(x))) => holds_no_heap(t, x),
		(Ty::Result(_, t), Val::Res(Err(x))) => holds_no_heap(t, x),
		(Ty::Tuple(ts), Val::Tuple(xs)) => ts.iter().zip(xs).all(|(t, x)| holds_no_heap(t, x)),
		(Ty::Range(t) | Ty::RangeIncl(t), Val::Tuple(xs)) => xs.iter().all(|x| holds_no_heap(t, x)),
		(Ty::Holder { kind, inner, mem }, _) =>
			(*kind == HolderKind::Ref || *mem == 0) && holds_no_heap(inner, v),
		(Ty::Struct { fields, .. }, Val::Tuple(xs)) =>
			fields.iter().zip(xs).filter(|(f, _)| !f.skip).all(|(f, x)| holds_no_heap(&f.ty, x)),
		(Ty::Enum { variants, .. }, Val::Variant(i, xs)) => variants[*i]
			.fields
			.iter()
			.zip(xs)
			.filter(|(f, _)| !f.skip)
			.all(|(f, x)| holds_no_heap(&f.ty, x)),
		_ => true,
	}
}
