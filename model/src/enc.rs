//! Reference SCALE encoder, from the specification.

use crate::ty::*;

/// Position of one length prefix inside an encoding (used by hostile-count generators).
#[derive(Clone, Debug)]
pub struct CountPos {
	pub offset: usize,
	pub width: usize,
	pub level: u32,
	pub count: u64,
	pub family: &'static str,
	/// minimum encoded size of one element (0 for zero-width elements)
	pub elem_min: usize,
	/// in-memory size of one element
	pub elem_mem: usize,
	/// element type is exactly `()` (giant counts are free to decode)
	pub elem_is_unit: bool,
}

pub struct Enc {
	pub out: Vec<u8>,
	pub counts: Vec<CountPos>,
	level: u32,
}

/// Shortest compact form of `x` by plain arithmetic.
pub fn compact_bytes(x: u128) -> Vec<u8> {
	if x < 1 << 6 {
		vec![(x as u8) << 2]
	} else if x < 1 << 14 {
		(((x as u16) << 2) | 0b01).to_le_bytes().to_vec()
	} else if x < 1 << 30 {
		(((x as u32) << 2) | 0b10).to_le_bytes().to_vec()
	} else {
		let n = (16 - x.leading_zeros() as usize / 8).max(4);
		let mut v = vec![0b11 | (((n - 4) as u8) << 2)];
		v.extend_from_slice(&x.to_le_bytes()[..n]);
		v
	}
}

pub fn le_bytes(raw: u128, bits: u32) -> Vec<u8> {
	raw.to_le_bytes()[..(bits / 8) as usize].to_vec()
}

impl Enc {
	fn count(&mut self, n: u64, family: &'static str, elem_min: usize, elem_mem: usize, elem_is_unit: bool) {
		assert!(n <= u64::from(u32::MAX), "model: count {n} not representable");
		let b = compact_bytes(u128::from(n));
		self.counts.push(CountPos {
			offset: self.out.len(),
			width: b.len(),
			level: self.level,
			count: n,
			family,
			elem_min,
			elem_mem,
			elem_is_unit,
		});
		self.out.extend_from_slice(&b);
	}

	fn fields(&mut self, fields: &[Field], vals: &[Val]) {
		assert_eq!(fields.len(), vals.len(), "model: field arity");
		for (f, v) in fields.iter().zip(vals) {
			if !f.skip {
				self.val(&f.ty, v);
			}
		}
	}

	fn elems(&mut self, elem: &Ty, v: &Val) {
		match v {
			Val::Seq(items) =>
				for x in items {
					self.val(elem, x);
				},
			Val::Bytes(b) => {
				assert!(matches!(elem, Ty::U(8) | Ty::I(8)), "model: Bytes for non-u8 element");
				self.out.extend_from_slice(b);
			},
			Val::Repeat(n, x) => {
				if *n > 0 {
					let before = self.out.len();
					self.val(elem, x);
					assert_eq!(before, self.out.len(), "model: Repeat of non zero-width element");
				}
			},
			other => panic!("model: elems of {}", other.brief(60)),
		}
	}

	pub fn val(&mut self, ty: &Ty, v: &Val) {
		match (ty, v) {
			(Ty::Ref(n), _) => {
				let t = lookup(n);
				self.val(&t, v)
			},
			(Ty::U(b), Val::U(x)) => self.out.extend(le_bytes(*x, *b)),
			(Ty::I(b), Val::I(x)) => self.out.extend(le_bytes(*x as u128, *b)),
			(Ty::NzU(b), Val::U(x)) => self.out.extend(le_bytes(*x, *b)),
			(Ty::NzI(b), Val::I(x)) => self.out.extend(le_bytes(*x as u128, *b)),
			(Ty::F32, Val::F32(x)) => self.out.extend(x.to_le_bytes()),
			(Ty::F64, Val::F64(x)) => self.out.extend(x.to_le_bytes()),
			(Ty::Bool, Val::Bool(x)) => self.out.push(u8::from(*x)),
			(Ty::Unit | Ty::Phantom | Ty::CompactUnit, _) => {},
			(Ty::Compact(_), Val::U(x)) => self.out.extend(compact_bytes(*x)),
			(Ty::Option(_), Val::Opt(None)) => self.out.push(0),
			(Ty::Option(t), Val::Opt(Some(x))) => {
				self.out.push(1);
				self.val(t, x);
			},
			(Ty::Result(t, _), Val::Res(Ok(x))) => {
				self.out.push(0);
				self.val(t, x);
			},
			(Ty::Result(_, t), Val::Res(Err(x))) => {
				self.out.push(1);
				self.val(t, x);
			},
			(Ty::OptionBool, Val::OptBool(x)) => self.out.push(match x {
				None => 0,
				Some(true) => 1,
				Some(false) => 2,
			}),
			(Ty::Seq { elem, elem_mem, .. }, _) => {
				self.count(v.seq_len(), ty.family(), elem.min_len(), *elem_mem, **elem == Ty::Unit);
				self.level += 1;
				self.elems(elem, v);
				self.level -= 1;
			},
			(Ty::Map { k, v: vt, entry_mem }, Val::Map(m)) => {
				self.count(m.len() as u64, "btreemap", k.min_len() + vt.min_len(), *entry_mem, false);
				self.level += 1;
				for (a, b) in m {
					self.val(k, a);
					self.val(vt, b);
				}
				self.level -= 1;
			},
			(Ty::Array(elem, n), _) => {
				assert_eq!(v.seq_len(), *n as u64, "model: array arity");
				self.elems(elem, v);
			},
			(Ty::Tuple(ts), Val::Tuple(xs)) => {
				assert_eq!(ts.len(), xs.len(), "model: tuple arity");
				for (t, x) in ts.iter().zip(xs) {
					self.val(t, x);
				}
			},
			(Ty::Str, Val::Bytes(b)) => {
				self.count(b.len() as u64, "string", 1, 1, false);
				self.out.extend_from_slice(b);
			},
			(Ty::Holder { kind, inner, .. }, _) => {
				let bump = *kind != HolderKind::Ref;
				if bump {
					self.level += 1;
				}
				self.val(inner, v);
				if bump {
					self.level -= 1;
				}
			},
			(Ty::Duration, Val::Tuple(xs)) => {
				self.out.extend(le_bytes(xs[0].as_u(), 64));
				self.out.extend(le_bytes(xs[1].as_u(), 32));
			},
			(Ty::Range(t) | Ty::RangeIncl(t), Val::Tuple(xs)) => {
				self.val(t, &xs[0]);
				self.val(t, &xs[1]);
			},
			(Ty::Bits { store, msb0 }, Val::Bits(bits)) => {
				assert!(bits.len() < 1 << 29, "model: bit count not representable");
				self.count(bits.len() as u64, "bits", 0, 0, false);
				let w = *store as usize;
				for chunk in bits.chunks(w) {
					let mut word: u64 = 0;
					for (i, b) in chunk.iter().enumerate() {
						if *b {
							let pos = if *msb0 { w - 1 - i } else { i };
							word |= 1u64 << pos;
						}
					}
					self.out.extend_from_slice(&word.to_le_bytes()[..w / 8]);
				}
			},
			(Ty::Struct { fields, .. }, Val::Tuple(xs)) => self.fields(fields, xs),
			(Ty::Enum { variants, .. }, Val::Variant(i, xs)) => {
				let var = &variants[*i];
				if let Some(idx) = var.index {
					self.out.push(idx);
					self.fields(&var.fields, xs);
				}
				// a skipped variant has no encoding: nothing at all is written
			},
			(t, v) => panic!("model: cannot encode {} as {}", v.brief(80), t.short_name()),
		}
	}
}

pub fn ref_encode(ty: &Ty, v: &Val) -> Vec<u8> {
	ref_encode_counts(ty, v).0
}

pub fn ref_encode_counts(ty: &Ty, v: &Val) -> (Vec<u8>, Vec<CountPos>) {
	let mut e = Enc { out: Vec::new(), counts: Vec::new(), level: 0 };
	e.val(ty, v);
	(e.out, e.counts)
}
