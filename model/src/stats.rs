//! Evidence accounting: evaluations, distinct non-trivial cases, class histogram, samples,
//! exclusions; and the evidence / replay file writers.

use serde_json::{json, Value};
use std::{
	collections::{BTreeMap, HashSet},
	hash::{Hash, Hasher},
	path::{Path, PathBuf},
};

#[derive(Default, Clone)]
pub struct Stats {
	pub frozen: bool,
	pub evaluations: u64,
	pub nontrivial: HashSet<u64>,
	/// distinct non-trivial cases counted by construction (enumerated domains) or by a
	/// conservative bitmap, in addition to the fingerprint set
	pub nontrivial_extra: u64,
	pub classes: BTreeMap<String, u64>,
	pub excluded: BTreeMap<String, u64>,
	pub samples: Vec<Value>,
	pub sample_seen: u64,
	pub known_hits: BTreeMap<String, u64>,
	pub extra: BTreeMap<String, Value>,
	pub maxima: BTreeMap<String, f64>,
}

pub const MAX_SAMPLES: usize = 12;

pub fn fingerprint<T: Hash + ?Sized>(t: &T) -> u64 {
	let mut h = std::collections::hash_map::DefaultHasher::new();
	t.hash(&mut h);
	h.finish()
}

impl Stats {
	pub fn eval(&mut self) {
		if !self.frozen {
			self.evaluations += 1;
		}
	}
	pub fn evals(&mut self, n: u64) {
		if !self.frozen {
			self.evaluations += n;
		}
	}
	pub fn class(&mut self, c: &str) {
		if !self.frozen {
			*self.classes.entry(c.to_string()).or_insert(0) += 1;
		}
	}
	pub fn class_n(&mut self, c: &str, n: u64) {
		if !self.frozen {
			*self.classes.entry(c.to_string()).or_insert(0) += n;
		}
	}
	pub fn exclude(&mut self, c: &str) {
		if !self.frozen {
			*self.excluded.entry(c.to_string()).or_insert(0) += 1;
		}
	}
	/// Record one distinct non-trivial case by fingerprint.
	pub fn nontrivial<T: Hash + ?Sized>(&mut self, key: &T) {
		if !self.frozen {
			self.nontrivial.insert(fingerprint(key));
		}
	}
	pub fn max(&mut self, key: &str, v: f64) {
		if !self.frozen {
			let e = self.maxima.entry(key.to_string()).or_insert(f64::MIN);
			if v > *e {
				*e = v;
			}
		}
	}
	/// Keep the first few cases and a sparse selection of later ones.
	pub fn sample(&mut self, f: impl FnOnce() -> Value) {
		if self.frozen {
			return;
		}
		self.sample_seen += 1;
		let n = self.sample_seen;
		if self.samples.len() < MAX_SAMPLES / 2 {
			self.samples.push(f());
		} else if n.is_power_of_two() && n >= 64 {
			if self.samples.len() >= MAX_SAMPLES {
				self.samples.remove(MAX_SAMPLES / 2);
			}
			self.samples.push(f());
		}
	}

	/// Serialise for transport from a worker process.
	pub fn to_json(&self) -> Value {
		json!({
			"evaluations": self.evaluations,
			"nontrivial": self.nontrivial.iter().collect::<Vec<_>>(),
			"nontrivial_extra": self.nontrivial_extra,
			"classes": self.classes,
			"excluded": self.excluded,
			"samples": self.samples,
			"known_hits": self.known_hits,
			"extra": self.extra,
			"maxima": self.maxima,
		})
	}

	pub fn from_json(v: &Value) -> Stats {
		let map_u64 = |k: &str| -> BTreeMap<String, u64> {
			v[k].as_object().map(|o| o.iter().map(|(a, b)| (a.clone(), b.as_u64().unwrap_or(0))).collect()).unwrap_or_default()
		};
		Stats {
			frozen: false,
			evaluations: v["evaluations"].as_u64().unwrap_or(0),
			nontrivial: v["nontrivial"].as_array().map(|a| a.iter().filter_map(|x| x.as_u64()).collect()).unwrap_or_default(),
			nontrivial_extra: v["nontrivial_extra"].as_u64().unwrap_or(0),
			classes: map_u64("classes"),
			excluded: map_u64("excluded"),
			samples: v["samples"].as_array().cloned().unwrap_or_default(),
			sample_seen: 0,
			known_hits: map_u64("known_hits"),
			extra: v["extra"].as_object().map(|o| o.iter().map(|(a, b)| (a.clone(), b.clone())).collect()).unwrap_or_default(),
			maxima: v["maxima"].as_object().map(|o| o.iter().map(|(a, b)| (a.clone(), b.as_f64().unwrap_or(0.0))).collect()).unwrap_or_default(),
		}
	}

	pub fn merge(&mut self, o: Stats) {
		self.evaluations += o.evaluations;
		self.nontrivial.extend(o.nontrivial);
		self.nontrivial_extra += o.nontrivial_extra;
		for (k, v) in o.classes {
			*self.classes.entry(k).or_insert(0) += v;
		}
		for (k, v) in o.excluded {
			*self.excluded.entry(k).or_insert(0) += v;
		}
		for (k, v) in o.known_hits {
			*self.known_hits.entry(k).or_insert(0) += v;
		}
		for (k, v) in o.maxima {
			let e = self.maxima.entry(k).or_insert(f64::MIN);
			if v > *e {
				*e = v;
			}
		}
		for s in o.samples {
			if self.samples.len() < MAX_SAMPLES {
				self.samples.push(s);
			}
		}
		for (k, v) in o.extra {
			self.extra.insert(k, v);
		}
	}
}

#[derive(Clone, Debug)]
pub struct Violation {
	/// root-cause signature, matched against known_findings.txt
	pub sig: String,
	pub detail: String,
}

impl Violation {
	pub fn new(sig: impl Into<String>, detail: impl Into<String>) -> Self {
		Violation { sig: sig.into(), detail: detail.into() }
	}
}

pub fn hex(b: &[u8]) -> String {
	let mut s = String::with_capacity(b.len() * 2);
	for (i, x) in b.iter().enumerate() {
		if i >= 96 {
			s.push_str(&format!("…(+{} bytes)", b.len() - i));
			break;
		}
		s.push_str(&format!("{x:02x}"));
	}
	s
}

pub fn hex_full(b: &[u8]) -> String {
	b.iter().map(|x| format!("{x:02x}")).collect()
}

pub fn unhex(s: &str) -> Vec<u8> {
	let s: Vec<u8> = s.bytes().filter(|c| c.is_ascii_hexdigit()).collect();
	s.chunks(2)
		.filter(|c| c.len() == 2)
		.map(|c| u8::from_str_radix(std::str::from_utf8(c).unwrap(), 16).unwrap())
		.collect()
}

pub fn verif_root() -> PathBuf {
	std::env::var_os("VERIF_ROOT").map(PathBuf::from).unwrap_or_else(|| PathBuf::from("/verif"))
}

pub struct EvidenceMeta<'a> {
	pub property: &'a str,
	pub tier: &'a str,
	pub seed: u64,
	pub level: &'a str,
	pub rule: &'a str,
	pub assumptions: Vec<String>,
	pub wall_s: f64,
	pub violations: u64,
	pub exhaustive: bool,
}

pub fn write_evidence(meta: &EvidenceMeta, stats: &Stats) -> std::io::Result<PathBuf> {
	let mut coverage = serde_json::Map::new();
	coverage.insert("evaluations".into(), json!(stats.evaluations));
	coverage.insert("distinct_nontrivial".into(), json!(stats.nontrivial.len() as u64 + stats.nontrivial_extra));
	coverage.insert("rule".into(), json!(meta.rule));
	coverage.insert("samples".into(), Value::Array(stats.samples.clone()));
	coverage.insert("classes".into(), json!(stats.classes));
	coverage.insert("excluded".into(), json!(stats.excluded));
	coverage.insert("known_finding_hits".into(), json!(stats.known_hits));
	if meta.exhaustive {
		coverage.insert("exhaustive".into(), json!(true));
	}
	if !stats.maxima.is_empty() {
		coverage.insert("maxima".into(), json!(stats.maxima));
	}
	for (k, v) in &stats.extra {
		coverage.insert(k.clone(), v.clone());
	}
	let doc = json!({
		"property_id": meta.property,
		"tier": meta.tier,
		"seed": meta.seed,
		"level": meta.level,
		"coverage": Value::Object(coverage),
		"assumptions": meta.assumptions,
		"wall_s": (meta.wall_s * 1000.0).round() / 1000.0,
		"violations": meta.violations,
	});
	let dir = verif_root().join("evidence");
	std::fs::create_dir_all(&dir)?;
	let path = dir.join(format!("{}.json", meta.property));
	let tmp = dir.join(format!(".{}.json.tmp", meta.property));
	std::fs::write(&tmp, serde_json::to_string_pretty(&doc).unwrap())?;
	std::fs::rename(&tmp, &path)?;
	Ok(path)
}

/// Write a replay file and return its path.
pub fn write_replay(property: &str, name: &str, doc: &Value) -> PathBuf {
	let dir = verif_root().join("replays").join(property);
	let _ = std::fs::create_dir_all(&dir);
	let path = dir.join(format!("{name}.json"));
	let _ = std::fs::write(&path, serde_json::to_string_pretty(doc).unwrap());
	path
}

// ---------------------------------------------------------------------------------------------
// known findings

#[derive(Clone, Debug)]
pub struct Known {
	pub property: String,
	pub signature: String,
	pub text: String,
}

/// Parse `/verif/known_findings.txt`; only `known:` lines suppress anything.
pub fn load_known(path: &Path) -> Vec<Known> {
	let Ok(s) = std::fs::read_to_string(path) else { return vec![] };
	let mut out = vec![];
	for line in s.lines() {
		let line = line.trim();
		let Some(rest) = line.strip_prefix("known:") else { continue };
		let mut property = String::new();
		let mut signature = String::new();
		let mut words = vec![];
		for w in rest.split_whitespace() {
			if let Some(p) = w.strip_prefix("property=") {
				property = p.to_string();
			} else if let Some(s) = w.strip_prefix("signature=") {
				signature = s.to_string();
			} else {
				words.push(w);
			}
		}
		if !property.is_empty() && !signature.is_empty() {
			out.push(Known { property, signature, text: words.join(" ") });
		}
	}
	out
}
