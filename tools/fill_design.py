#!/usr/bin/env python3
"""Fill the result tables of DESIGN.md §10 from notes/mutants-run*.log and seeded/*/meta.json."""
import re, json, glob, os
ROOT=os.path.dirname(os.path.dirname(os.path.abspath(__file__)))
res={}
for f in sorted(glob.glob(ROOT+'/notes/mutants-run*.log')):
    for l in open(f):
        m=re.match(r'^(\S+): (.*?)\s+\((\d+)s\)$', l.strip())
        if not m or 'PATTERN NOT FOUND' in l: continue
        parts={}
        for seg in m.group(2).split(' | '):
            k,_,v=seg.partition(': ')
            parts[k]=v
        if all('build failed' in v for v in parts.values()):
            continue
        res[m.group(1)]=parts
rows=["| mutant | result |","|---|---|"]
for name in sorted(res):
    cells=[]
    for k,v in res[name].items():
        code=re.search(r'exit=(\d)',v); c=code.group(1) if code else '?'
        cells.append(f"{k} {'caught' if c=='1' else ('**missed**' if c=='0' else 'inconclusive')}")
    rows.append(f"| `{name}` | {'; '.join(cells)} |")
mt="\n".join(rows)
rows=["| seeded change | breaks | needs | caught by (quick tier) |","|---|---|---|---|"]
for d in sorted(glob.glob(ROOT+'/seeded/*/meta.json')):
    m=json.load(open(d)); sid=os.path.basename(os.path.dirname(d))
    caught="; ".join(f"{k}: {v}" for k,v in m.get('caught_by',{}).items())
    rows.append(f"| `{sid}` | {m['property']}{(' (+'+', '.join(m['also_breaks'])+')') if m.get('also_breaks') else ''} | {m['needs']} | {caught} |")
st="\n".join(rows)
p=ROOT+'/DESIGN.md'; s=open(p).read()
s=re.sub(r'<!--MT-->.*?<!--/MT-->|@@MUTANT_TABLE@@', '<!--MT-->\n'+mt+'\n<!--/MT-->', s, flags=re.S)
s=re.sub(r'<!--ST-->.*?<!--/ST-->|@@SEED_TABLE@@', '<!--ST-->\n'+st+'\n<!--/ST-->', s, flags=re.S)
open(p,'w').write(s)
print("filled", len(res), "mutants")
