#!/usr/bin/env python3
import json, jsonschema, glob, sys
m=json.load(open('/verif/MANIFEST.json')); s=json.load(open('/root/.vp/MANIFEST.schema.json'))
jsonschema.validate(m,s); print("manifest ok")
es=json.load(open('/root/.vp/EVIDENCE.schema.json'))
for c in m['checks']:
    try:
        jsonschema.validate(json.load(open(c['evidence_file'])),es); print(c['property_id'],'evidence ok')
    except Exception as e:
        print(c['property_id'],'EVIDENCE PROBLEM', str(e)[:300])
