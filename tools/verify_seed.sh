#!/bin/bash
# tools/verify_seed.sh <worktree> <seed-id> <feature-flags-for-demo>
# Confirms a seeded change in its scratch worktree: the suite's outcome is the baseline's, the demo
# fails with the change and passes without it. Copies patch/demo/report into /verif/seeded/<id>/.
set -u
wt="$1"; id="$2"; feat="${3:-}"
cd "$wt" || exit 2
export CARGO_NET_OFFLINE=true
out=/verif/seeded/$id; mkdir -p "$out"
[ -f patch.diff ] || git diff -- src derive > patch.diff
mv tests/seeded_demo.rs /var/tmp/seeded_demo_$id.rs
suite() { cargo test --workspace --no-fail-fast --offline 2>&1 | grep -E "^test " | grep -v "^test result" | sed 's/ \.\.\. / /' | sort > "$1"; }
suite /var/tmp/suite_with_$id.txt
git apply -R patch.diff
suite /var/tmp/suite_without_$id.txt
same=$(diff -q /var/tmp/suite_with_$id.txt /var/tmp/suite_without_$id.txt >/dev/null && echo identical || echo DIFFERENT)
ok=$(grep -c " ok$" /var/tmp/suite_with_$id.txt); failed=$(grep -c " FAILED$" /var/tmp/suite_with_$id.txt)
mv /var/tmp/seeded_demo_$id.rs tests/seeded_demo.rs
demo_without=$(cargo test --offline $feat --test seeded_demo 2>&1 | grep "^test result:" | head -1)
git apply patch.diff
demo_with=$(cargo test --offline $feat --test seeded_demo 2>&1 | grep "^test result:" | head -1)
cp patch.diff "$out/patch.diff"; cp tests/seeded_demo.rs "$out/seeded_demo.rs"; [ -f REPORT.md ] && cp REPORT.md "$out/REPORT.md"
echo "id=$id suite_with_vs_without=$same ok=$ok failed=$failed | demo with change: $demo_with | demo without: $demo_without" | tee "$out/verified.txt"
