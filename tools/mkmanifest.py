#!/usr/bin/env python3
"""Regenerate /verif/MANIFEST.json from the table below (kept in one place so it stays valid)."""
import json, os, sys
ROOT = os.path.dirname(os.path.dirname(os.path.abspath(__file__)))

# id -> (implemented, category, technique, text, note, design_ref)
P = {
 "C01": (True, "exploration", "property-based testing: generated values vs independent reference encoder (differential), plus enumerated small domains",
   "Generated-input search: every zoo type x boundary-biased values, plus complete enumeration of the 8/16-bit domains; oracle is an independent SCALE reference encoder validated against published vectors. Sampling outside the enumerated domains, so evidence not proof.",
   "Trusts the reference model (self-tested against ~80 published vectors at start-up) and the hand-written Modeled bridge.", "§6 C01"),
 "C02": (True, "exploration", "property-based testing: round-trip with value/consumed-length oracle over generated values and suffixes",
   "Round trip over generated values with lengths centred on the preallocation window, every trailing-suffix family, slice and unknown-length inputs; consumed length checked against the reference encoder.",
   "Trusts the Modeled bridge's from_val/to_val; skipped variants excluded by construction.", "§6 C02"),
 "C03": (True, "exploration", "property-based testing + exhaustive short strings + mutation/grammar-aware fuzzing vs reference decoder (differential)",
   "Differential decoding against an independent reference decoder on exhaustive short strings, mutated valid encodings, count-tampered and grammar-aware near-valid strings and random strings; panics are violations.",
   "Trusts the reference decoder (self-tested on published vectors and rejection rules). Recursive types get <=256-byte inputs here; zero-width giant counts skipped (counted).", "§6 C03"),
 "C04": (True, "exploration", "exhaustive enumeration of 8/16-bit (thorough: 32-bit) values and decoder-distinguishable strings + boundary/random property-based testing vs arithmetic reference",
   "Complete enumeration of every u8/u16 value and of every string the 8- and 16-bit decoders can distinguish (thorough: all 2^32 u32 values and the 32-bit decoder's ~5.4e9 strings); class boundaries, two-lane values, tag x top-byte x length strings and random values/strings for 64/128 bit; arithmetic oracle for canonical form, compact_len, all Encode entry points and cross-width decoding.",
   "Two independently written arithmetic references (model crate, c04.rs) cross-checked; 64/128-bit domains are sampled.", "§6 C04"),
 "C07": (True, "exploration", "property-based differential testing: six encode entry points vs reference; bulk paths vs hand-written element-wise twin type",
   "Every encode entry point against the reference encoding for generated zoo values; bulk primitive paths against an element-wise twin type for all 12 primitives, lengths up to 3 preallocation chunks, slices/Vec/wrapped VecDeque/arrays, decoding valid, truncated and extended inputs over slice and unknown-length inputs.",
   "The twin type defines element-wise behaviour via to_le_bytes/from_le_bytes.", "§6 C07"),
 "C08": (True, "exploration", "property-based differential testing across Input implementations and all 39 wrapper orderings",
   "Slice decoding as oracle for IoReader (cursor and generated short-read schedules), unknown-length input, decode_from_bytes, and every ordering of the three provided wrappers up to depth 3 over known/unknown-length bases, on byte strings from the C03 families.",
   "Wrapper stacks run over a type-erased Input adapter (same source paths, one monomorphisation).", "§6 C08"),
 "C14": (True, "exploration", "property-based testing: metamorphic relations (prefix rejection, concatenation, decode_all equivalence)",
   "Three executable relations over generated values/strings: strict prefixes fail, concatenations decode value by value, decode_all / decode_all_with_depth_limit succeed exactly when decode succeeds with nothing left.",
   "Cut points are sampled (60) for encodings longer than 300 bytes.", "§6 C14"),
 "C18": (True, "exploration", "property-based testing: DecodeLength vs true length and reference compact decoder; skip vs decode differential",
   "len(encode(v)) against the value's length for all DecodeLength zoo types incl. tuples of arity 1-18; len on arbitrary strings against the reference compact decoder (exhaustive <= 2 bytes); skip vs decode on byte strings from the C03 families for every decodable type.",
   "Reference compact decoder self-tested.", "§6 C18"),
 "C19": (True, "exploration", "property-based testing: CountedInput vs slice position / logging base input; saturation via cfg-guarded hook",
   "count() against the wrapped slice's consumed length after success and failure of decode and of Decode::skip for generated strings of every decodable type, against a logging base input for every wrapper stack containing CountedInput, and against a saturating model near u64::MAX through the guarded constructor.",
   "The hook only sets the initial counter value.", "§6 C19"),
 "C06": (True, "exploration", "stateful property-based testing: operation histories interpreted against structure and model, invariant after every step",
   "Generated construction histories for VecDeque (biased to wrap the ring; all primitive element types), Vec/String capacity, BTreeMap/BTreeSet orders, LinkedList, BinaryHeap, bit-slices at every offset 0..=70 for all store/order pairs, and holder transitions; the encoding must equal the reference encoding of the logical content, a fresh copy's encoding and a second encoding after every step.",
   "Reference encoder self-tested; history length bounded (<= 44 ops).", "§6 C06"),
 "C09": (True, "exploration", "property-based testing with an allocator monitor in a crash-recovering worker: hostile count injection at every nesting position",
   "Hostile counts (2^32-1 ... count+1) injected at generated nesting positions of valid encodings, followed by 0..64 KiB payload, over slice / unknown-length / shared-buffer inputs; a per-thread counting global allocator bounds peak live bytes and the largest request by a linear function of the input length plus 256 KiB per nesting level; refused requests (> 2 GiB) kill the worker and are recovered by the parent.",
   "Bound constants calibrated on the unchanged tree (max observed ratio recorded in evidence); zero-width-encoded sized elements excluded (counted).", "§6 C09"),
 "C10": (True, "fault_enumeration", "fault enumeration: every failure position x fault kind over 39 container shapes with an instrumented element, ledger + counting allocator, native and AddressSanitizer, plus random multi-fault scripts",
   "Complete enumeration of (shape x failing element x {input exhausted at every byte, malformed, panic, depth-limit at every limit, mem-limit at every limit}) with a drop ledger and a byte-exact leak detector, repeated under AddressSanitizer in a crash-recovering worker; random multi-fault scripts on top.",
   "Monitors see only executed scripts; element decoder is part of the harness; N <= 40, nests two deep.", "§6 C10"),
 "C11": (True, "exploration", "property-based testing: limit sweep 0..=D+2 with transparency/monotonicity/threshold oracle; deep inputs on a 2 MiB stack in a crash-recovering worker",
   "For generated wide/deep values and mutated strings every limit 0..=D_hi+2 is tried against five clauses (transparent, monotone, sufficient at D_hi, necessary below D_lo = D_hi without leaf containers of bulk-read primitives/strings/bit sequences, decode_all variant); inputs nested up to 10^6 levels for five recursive types are decoded on a 2 MiB stack in a worker process whose death is the violation.",
   "Leaf containers of bulk-read primitives, strings and bit sequences are not counted by the crate (its own test requires it), so for them either outcome is accepted at D_hi-1; one stack size.", "§6 C11"),
 "C12": (True, "exploration", "property-based testing: exhaustive limit sweep 0..=U+1 per input with threshold oracle and value-derived lower bound",
   "For valid and mutated inputs of every DecodeWithMemTracking zoo type every limit 0..=U+1 (U <= 4096; else partial sums of announced allocations and boundaries) is tried: transparent, succeeds above U, fails at or below U when U > 0, both entry points agree, U >= heap payload of the decoded value, U == 0 for heap-free values.",
   "Payload model states the property's lower bound (half for tree maps/sets).", "§6 C12"),
 "C13": (True, "exploration", "property-based testing: values biased to longest encodings vs declared max/const/fixed lengths; generated derive(MaxEncodedLen) programs",
   "Every MaxEncodedLen/ConstEncodedLen zoo type with values maximising the encoded length, every type with a fixed encoded size, and generated derive(MaxEncodedLen) definitions compiled against /repo.",
   "Model max_len cross-check; generated program space is the grammar in DESIGN §4.3.", "§6 C13"),
 "C15": (True, "exploration", "stateful property-based testing: append_or_new histories vs model vector; boundary counts with zero-sized items; invalid starts",
   "Histories of append_or_new calls over item types/forms and targets, with counts placed on every prefix-width boundary (63/64, 2^14, 2^30 and around 2^32 with zero-sized items, batches longer than 2^32), checked after every step against the reference encoding of the whole; invalid count prefixes must be rejected.",
   "Reference encoder self-tested; 2^30 boundary with real items only in the thorough tier.", "§6 C15"),
 "C16": (True, "exploration", "property-based testing over a table of declared EncodeLike pairs, each certified by the compiler through a generic bound",
   "63 rows covering every EncodeLike impl family, values generated from the owner's model type (incl. unsorted/duplicate slices for maps/sets); bytes must equal the reference encoding, decode as the target type to the reference decoder's value, and equal the target's own encoding where canonical.",
   "The table is hand-maintained; impl headers found in /repo/src are counted in the evidence.", "§6 C16"),
 "C05": (True, "exploration", "generated programs: derive definitions from a grammar, compiled against /repo and executed against a definition-derived model (differential), crash-recovering",
   "Generated valid derive definitions (attributes, generics, nesting, transparent, index sources, skipped/all-skipped/empty enums, 255/256 variants) each paired with a model impl written from the definition; compiled together and executed: layout, entry points, round trip, decoder vs reference on mutated strings, all 256 index bytes, mem-limit threshold; termination of skipped-variant encoding observed through begin/end markers with a strict re-run; valid definitions that fail to compile are confirmed alone.",
   "Program space is the grammar in DESIGN §4.3; definitions are not shrunk beyond choosing the smallest failing one per root cause.", "§6 C05"),
 "C17": (True, "exploration", "generated programs with the compiler as oracle vs a reference validity predicate; disagreements re-compiled in isolation",
   "Generated enum definitions over index/discriminant/implicit/skip assignments with indices 0..=300 (incl. 255/256/257 variants), the finite attribute-conflict/union/CompactAs-shape set, each invalid program paired with a minimally different valid twin; cargo check verdict per definition (JSON span attribution) compared with the reference predicate.",
   "Rust-level validity of generated programs is the generator's responsibility (self-checked); disagreements are re-taken alone.", "§6 C17"),
 "C20": (True, "exploration", "differential testing across feature configurations: one probe binary per configuration over a seed-determined corpus, compared with each other and with the reference model",
   "The same generated corpus (values through every available entry point, byte strings from the C03 families) is run through a probe binary built per feature configuration (std / no_std / no_std+chain-error x all integrations / derive only; thorough: 12 configurations); crate digests must equal the reference model's in each configuration and be identical across configurations.",
   "Probe binaries are std programs linking the crate built with each feature set; error texts are never compared.", "§6 C20"),
}
PENDING = {
}
ALL = ["C%02d" % i for i in range(1, 21)]

checks = []
na = []
for pid in ALL:
    if pid in P and P[pid][0]:
        _, cat, tech, text, note, ref = P[pid]
        checks.append({
            "property_id": pid,
            "quick_cmd": f"./check {pid} quick",
            "thorough_cmd": f"./check {pid} thorough",
            "evidence_file": f"/verif/evidence/{pid}.json",
            "replay_cmd_template": f"./check {pid} --replay {{path}}",
            "engine": "psc-verif",
            "level_claimed": {"category": cat, "text": text, "design_ref": f"DESIGN.md {ref}"},
            "level_note": note,
            "technique": tech,
        })
    else:
        na.append({"property_id": pid, "reason": PENDING.get(pid, "check not built yet in this round (planned in DESIGN.md §6); not claimed until it exists and is silent on the unchanged tree")})

hooks_commits = []
hc = os.path.join(ROOT, "notes", "hook_commits.txt")
if os.path.exists(hc):
    hooks_commits = [l.strip() for l in open(hc) if l.strip()]

m = {
 "version": 1,
 "setup_cmd": "./setup.sh",
 "hooks": {
   "guard": "--cfg parity_scale_codec_verif",
   "enable": "RUSTFLAGS=\"--cfg parity_scale_codec_verif\" (exported by ./check and ./setup.sh for every cargo build of the harness, which depends on /repo by path)",
   "baseline_off_cmd": "cd /repo && cargo test --workspace --no-fail-fast --offline",
   "source_commits": hooks_commits,
   "add_only": True,
 },
 "engines": [
   {"name": "psc-verif", "path": "/verif/harness", "serves_properties": [c["property_id"] for c in checks],
    "kind_free_text": "Rust binary: proptest-driven tape generators with Hypothesis-style shrinking, enumerating drivers, independent SCALE reference model (psc-model), type zoo bridge (psc-bridge)"},
 ],
 "checks": checks,
 "not_applicable": na,
 "notes": "All checks decide their property by generated-input search against an explicit oracle (see DESIGN.md). Exit 2 = inconclusive, never a violation.",
}
json.dump(m, open(os.path.join(ROOT, "MANIFEST.json"), "w"), indent=1)
print("MANIFEST.json written:", len(checks), "checks,", len(na), "not_applicable")
