#!/usr/bin/env python3
"""Regenerate /verif/MANIFEST.json from the table below (kept in one place so it stays valid)."""
import json, os, sys
ROOT = os.path.dirname(os.path.dirname(os.path.abspath(__file__)))

# id -> (implemented, category, technique, text, note, design_ref)
P = {
 "C01": (True, "exploration", "property-based testing: generated values vs independent reference encoder (differential), plus enumerated small domains",
   "Generated-input search: every zoo type x boundary-biased values, plus complete enumeration of the 8/16-bit domains; oracle is an independent SCALE reference encoder validated against published vectors. Sampling outside the enumerated domains, so evidence not proof.",
   "Trusts the reference model (self-tested against ~80 published vectors at start-up) and the hand-written Modeled bridge.", "§6 C01"),
 "C02": (True, "exploration", "property-based testing: round-trip with value/consumed-length oracle over generated values and suffixes",
   "Round trip over generated values with lengths centred on the preallocation window, every trailing-suffix family, slice and unknown-length inputs; consumed length checked against the reference encoder.",
   "Trusts the Modeled bridge's from_val/to_val; skipped variants excluded by construction.", "§6 C02"),
 "C03": (True, "exploration", "property-based testing + exhaustive short strings + mutation/grammar-aware fuzzing vs reference decoder (differential)",
   "Differential decoding against an independent reference decoder on exhaustive short strings, mutated valid encodings, count-tampered and grammar-aware near-valid strings and random strings; panics are violations.",
   "Trusts the reference decoder (self-tested on published vectors and rejection rules). Recursive types get <=256-byte inputs here; zero-width giant counts skipped (counted).", "§6 C03"),
}
PENDING = {
}
ALL = ["C%02d" % i for i in range(1, 21)]

checks = []
na = []
for pid in ALL:
    if pid in P and P[pid][0]:
        _, cat, tech, text, note, ref = P[pid]
        checks.append({
            "property_id": pid,
            "quick_cmd": f"./check {pid} quick",
            "thorough_cmd": f"./check {pid} thorough",
            "evidence_file": f"/verif/evidence/{pid}.json",
            "replay_cmd_template": f"./check {pid} --replay {{path}}",
            "engine": "psc-verif",
            "level_claimed": {"category": cat, "text": text, "design_ref": f"DESIGN.md {ref}"},
            "level_note": note,
            "technique": tech,
        })
    else:
        na.append({"property_id": pid, "reason": PENDING.get(pid, "check not built yet in this round (planned in DESIGN.md §6); not claimed until it exists and is silent on the unchanged tree")})

hooks_commits = []
hc = os.path.join(ROOT, "notes", "hook_commits.txt")
if os.path.exists(hc):
    hooks_commits = [l.strip() for l in open(hc) if l.strip()]

m = {
 "version": 1,
 "setup_cmd": "./setup.sh",
 "hooks": {
   "guard": "--cfg parity_scale_codec_verif",
   "enable": "RUSTFLAGS=\"--cfg parity_scale_codec_verif\" (exported by ./check and ./setup.sh for every cargo build of the harness, which depends on /repo by path)",
   "baseline_off_cmd": "cd /repo && cargo test --workspace --no-fail-fast --offline",
   "source_commits": hooks_commits,
   "add_only": True,
 },
 "engines": [
   {"name": "psc-verif", "path": "/verif/harness", "serves_properties": [c["property_id"] for c in checks],
    "kind_free_text": "Rust binary: proptest-driven tape generators with Hypothesis-style shrinking, enumerating drivers, independent SCALE reference model (psc-model), type zoo bridge (psc-bridge)"},
 ],
 "checks": checks,
 "not_applicable": na,
 "notes": "All checks decide their property by generated-input search against an explicit oracle (see DESIGN.md). Exit 2 = inconclusive, never a violation.",
}
json.dump(m, open(os.path.join(ROOT, "MANIFEST.json"), "w"), indent=1)
print("MANIFEST.json written:", len(checks), "checks,", len(na), "not_applicable")
