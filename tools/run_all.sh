#!/bin/bash
# tools/run_all.sh <quick|thorough> [Cxx ...]   run the registered checks one after another, print one line each.
# With MUT_REPO set the tree is first re-pointed at that checkout (isolated runs from a vp-run snapshot).
cd "$(dirname "$0")/.." || exit 2
tier="${1:-quick}"; shift
props="$@"; [ -z "$props" ] && props="C01 C02 C03 C04 C05 C06 C07 C08 C09 C10 C11 C12 C13 C14 C15 C16 C17 C18 C19 C20"
if [ -n "${MUT_REPO:-}" ]; then python3 -c "
import sys; sys.path.insert(0,'tools'); import mutants; mutants.retarget()"; fi
for p in $props; do
	start=$(date +%s)
	out=$(./check "$p" "$tier" 2>&1); code=$?
	echo "$p $tier seed=${VERIF_SEED:-1} exit=$code $(( $(date +%s) - start ))s $(echo "$out" | grep -E '^\[C|^VIOLATION|^INCONCLUSIVE|^KNOWN' | head -3 | tr '\n' ' ' | cut -c1-400)"
done
