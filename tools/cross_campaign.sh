#!/bin/bash
# tools/cross_campaign.sh [tier]   for every kept seeded change, run the checks of the *other* properties its meta.json
# says it also breaks ("also_breaks"): a miss there is a property whose check is blind to a mechanism that breaks it.
cd "$(dirname "$0")/.." || exit 2
repo="${MUT_REPO:-/repo}"; tier="${1:-quick}"
if [ -n "${MUT_REPO:-}" ]; then python3 -c "
import sys; sys.path.insert(0,'tools'); import mutants; mutants.retarget()"; fi
for d in seeded/*/; do
	id=$(basename "$d"); [ -f "$d/meta.json" ] || continue
	props=$(python3 -c "import json; print(' '.join(json.load(open('$d/meta.json')).get('also_breaks',[])))")
	[ -z "$props" ] && continue
	git -C "$repo" apply "$PWD/$d/patch.diff" 2>/dev/null || { echo "$id PATCH-DOES-NOT-APPLY"; continue; }
	for prop in $props; do
		out=$(./check "$prop" "$tier" 2>&1); code=$?
		verdict=MISSED; [ $code -eq 1 ] && verdict=caught; [ $code -eq 2 ] && verdict=INCONCLUSIVE
		echo "$id also:$prop exit=$code $verdict $(echo "$out" | grep -E '^VIOLATION' | head -1 | sed 's/.*replay=.*\///' | cut -c1-90)"
	done
	git -C "$repo" checkout -- .
done
