#!/bin/bash
# tools/try_seed.sh <seed-id> <Cxx>...   apply /verif/seeded/<id>/patch.diff to /repo, run the quick checks, undo.
id="$1"; shift
cd /verif
git -C /repo apply "/verif/seeded/$id/patch.diff" || { echo "patch does not apply"; exit 2; }
for p in "$@"; do
	out=$(./check "$p" ${TIER:-quick} 2>&1); code=$?
	echo "$id $p exit=$code $(echo "$out" | grep -E '^VIOLATION|^INCONCLUSIVE' | head -2 | tr '\n' ' ')"
	echo "$out" | grep -A3 "^VIOLATION" | head -6 | sed 's/^/      /' | cut -c1-260
done
git -C /repo checkout -- .
