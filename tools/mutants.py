#!/usr/bin/env python3
"""Sensitivity campaign: apply each mutant to /repo's working tree, run the quick checks expected to
catch it, revert. Usage: tools/mutants.py [name-substring ...]   (results appended to notes/mutants.log)

Every mutant is a realistic change that still compiles; whether it passes the repository's own tests is
recorded separately (tools/mutants.py --repo-tests <name>)."""
import subprocess, sys, os, time, json

VERIF = os.path.dirname(os.path.dirname(os.path.abspath(__file__)))
REPO = os.environ.get("MUT_REPO", "/repo")

def retarget():
    """Point this copy of the verification tree at another checkout of the repository (isolated campaigns)."""
    if REPO == "/repo":
        return
    files = ["bridge/Cargo.toml", "harness/Cargo.toml", "harness/src/programs.rs", "harness/src/c16.rs", ".cargo/config.toml"]
    for f in files:
        p = os.path.join(VERIF, f)
        s = open(p).read()
        s = s.replace('path = "/repo"', 'path = "%s"' % REPO).replace('path = \\"/repo\\"', 'path = \\"%s\\"' % REPO)
        s = s.replace('"/repo/src/{f}"', '"%s/src/{f}"' % REPO).replace('target-dir = "/verif/target"', 'target-dir = "%s/target"' % VERIF)
        open(p, "w").write(s)
M = []
def m(name, file, old, new, props, count=1):
    M.append(dict(name=name, file=file, old=old, new=new, props=props, count=count))

# ---- C01: symmetric format changes (invisible to round trips)
m("c01-duration-swapped", "src/codec.rs",
  "(secs, nanos).encode()", "(nanos, secs).encode()", ["C01"])
m("c01-optionbool-swapped-both", "src/codec.rs",
  "OptionBool(Some(true)) => 1u8,\n\t\t\tOptionBool(Some(false)) => 2u8,", "OptionBool(Some(true)) => 2u8,\n\t\t\tOptionBool(Some(false)) => 1u8,", ["C01", "C02"])
m("c01-u128-bigendian-scalar", "src/codec.rs",
  "impl_endians!(u16; U16, u32; U32, u64; U64, u128; U128, i16; I16, i32; I32, i64; I64, i128; I128);",
  "impl_endians!(u16; U16, u32; U32, u64; U64, i16; I16, i32; I32, i64; I64, i128; I128);\nimpl EncodeLike for u128 {}\nimpl Encode for u128 {\n\tconst TYPE_INFO: TypeInfo = TypeInfo::U128;\n\tfn size_hint(&self) -> usize { 16 }\n\tfn using_encoded<R, F: FnOnce(&[u8]) -> R>(&self, f: F) -> R { let buf = self.to_be_bytes(); f(&buf[..]) }\n}\nimpl Decode for u128 {\n\tconst TYPE_INFO: TypeInfo = TypeInfo::U128;\n\tfn decode<I: Input>(input: &mut I) -> Result<Self, Error> { let mut buf = [0u8; 16]; input.read(&mut buf)?; Ok(u128::from_be_bytes(buf)) }\n\tfn encoded_fixed_size() -> Option<usize> { Some(16) }\n}\nimpl DecodeWithMemTracking for u128 {}",
  ["C01", "C07"])
m("c01-result-tags-swapped", "src/codec.rs",
  "Ok(ref t) => {\n\t\t\t\tdest.push_byte(0);\n\t\t\t\tt.encode_to(dest);\n\t\t\t},\n\t\t\tErr(ref e) => {\n\t\t\t\tdest.push_byte(1);",
  "Ok(ref t) => {\n\t\t\t\tdest.push_byte(1);\n\t\t\t\tt.encode_to(dest);\n\t\t\t},\n\t\t\tErr(ref e) => {\n\t\t\t\tdest.push_byte(0);", ["C01", "C02"])
m("c01-bitvec-msb-lsb-confused", "src/bit_vec.rs",
  "element.view_bits_mut::<O>()[..chunk.len()].copy_from_bitslice(chunk);", "if chunk.len() == 5 { element.view_bits_mut::<bitvec::order::Lsb0>()[..chunk.len()].clone_from_bitslice(chunk); } else { element.view_bits_mut::<O>()[..chunk.len()].copy_from_bitslice(chunk); }", ["C01", "C06"])

# ---- C02
m("c02-second-chunk-offset", "src/codec.rs",
  "let decoded_vec_size = decoded_vec_len * mem::size_of::<T>();", "let decoded_vec_size = decoded_vec_len;", ["C02", "C07"])
m("c02-bitvec-no-truncate", "src/bit_vec.rs",
  "result.truncate(bits as usize);", "if bits % 8 != 7 { result.truncate(bits as usize); }", ["C02", "C03"])

# ---- C03
m("c03-bool-nonzero-true", "src/codec.rs",
  "0 => Ok(false),\n\t\t\t1 => Ok(true),\n\t\t\t_ => Err(\"Invalid boolean representation\".into()),", "0 => Ok(false),\n\t\t\t_ => Ok(true),", ["C03"])
m("c03-nonzero-unchecked", "src/codec.rs",
  "Self::new(Decode::decode(input)?)\n\t\t\t\t\t\t.ok_or_else(|| Error::from(\"cannot create non-zero number from 0\"))",
  "Ok(Self::new(Decode::decode(input)?).unwrap_or(Self::MIN))", ["C03"])
m("c03-nanos-gt", "src/codec.rs", "if nanos >= A_BILLION {", "if nanos > A_BILLION {", ["C03"])
m("c03-compact-u32-ge", "src/compact.rs",
  "if x > 0b0011_1111_1111_1111 && x <= u32::MAX >> 2 {\n\t\t\t\t\tx\n", "if x >= 0b0011_1111_1111_1111 && x <= u32::MAX >> 2 {\n\t\t\t\t\tx\n", ["C03", "C04"])
m("c03-option-tag-lenient", "src/codec.rs",
  "0 => Ok(None),\n\t\t\t1 => Ok(Some(", "0 => Ok(None),\n\t\t\t1 | 3 => Ok(Some(", ["C03"])
m("c03-bitvec-cap-off", "src/bit_vec.rs",
  "if bits as usize > ARCH32BIT_BITSLICE_MAX_BITS {\n\t\t\t\treturn Err(\"Attempt to decode a BitVec with too many bits\".into());\n\t\t\t}", "if bits as usize > ARCH32BIT_BITSLICE_MAX_BITS + 1 {\n\t\t\t\treturn Err(\"Attempt to decode a BitVec with too many bits\".into());\n\t\t\t}", ["C03"])
m("c03-string-lossy", "src/codec.rs",
  "Self::from_utf8(Vec::decode(input)?).map_err(|_| \"Invalid utf8 sequence\".into())", "Ok(Self::from_utf8_lossy(&Vec::<u8>::decode(input)?).into_owned())", ["C03"])

# ---- C04
m("c04-u64-single-byte-boundary", "src/compact.rs",
  "impl Encode for CompactRef<'_, u64> {\n\tfn size_hint(&self) -> usize {\n\t\tCompact::compact_len(self.0)\n\t}\n\n\tfn encode_to<W: Output + ?Sized>(&self, dest: &mut W) {\n\t\tmatch self.0 {\n\t\t\t0..=0b0011_1111 =>",
  "impl Encode for CompactRef<'_, u64> {\n\tfn size_hint(&self) -> usize {\n\t\tCompact::compact_len(self.0)\n\t}\n\n\tfn encode_to<W: Output + ?Sized>(&self, dest: &mut W) {\n\t\tmatch self.0 {\n\t\t\t0..=0b0011_1110 =>", ["C04", "C01"])
m("c04-compact-len-u128", "src/compact.rs",
  "_ => (16 - val.leading_zeros() / 8) as usize + 1,", "_ => (16 - (val.leading_zeros() + 1) / 8) as usize + 1,", ["C04"])
m("c04-u64-decode-accepts-noncanonical-8", "src/compact.rs",
  "let x = u64::decode(input)?;\n\t\t\t\t\tif x > u64::MAX >> 8 {\n\t\t\t\t\t\tx\n", "let x = u64::decode(input)?;\n\t\t\t\t\tif x >= u64::MAX >> 8 {\n\t\t\t\t\t\tx\n", ["C04", "C03"])

# ---- C06
m("c06-deque-halves-swapped", "src/codec.rs",
  "encode_slice_no_len(slices.0, dest);\n\t\tencode_slice_no_len(slices.1, dest);", "if slices.1.len() == 3 { encode_slice_no_len(slices.1, dest);\n\t\tencode_slice_no_len(slices.0, dest); } else { encode_slice_no_len(slices.0, dest);\n\t\tencode_slice_no_len(slices.1, dest); }", ["C06", "C07"])

# ---- C07
m("c07-sizetracker-push-byte", "src/codec.rs",
  "fn push_byte(&mut self, _byte: u8) {\n\t\tself.written += 1;", "fn push_byte(&mut self, _byte: u8) {\n\t\tself.written += 0;", ["C07"])
m("c07-str-using-encoded", "src/codec.rs",
  "fn using_encoded<R, F: FnOnce(&[u8]) -> R>(&self, f: F) -> R {\n\t\tself.as_bytes().using_encoded(f)", "fn using_encoded<R, F: FnOnce(&[u8]) -> R>(&self, f: F) -> R {\n\t\tself.trim_end_matches('\\u{0}').as_bytes().using_encoded(f)", ["C07"])

# ---- C08
m("c08-counted-alloc-hook-fails-24", "src/counted_input.rs",
  "fn on_before_alloc_mem(&mut self, size: usize) -> Result<(), crate::Error> {\n\t\tself.input.on_before_alloc_mem(size)", "fn on_before_alloc_mem(&mut self, size: usize) -> Result<(), crate::Error> {\n\t\tif size == 24 { return Err(\"x\".into()); }\n\t\tself.input.on_before_alloc_mem(size)", ["C08"])
m("c08-bytes-cursor-position", "src/codec.rs",
  "bytes::Buf::advance(&mut self.bytes, self.position);\n\t\tself.position = 0;", "bytes::Buf::advance(&mut self.bytes, self.position);\n\t\tself.position = if length == 5 { 1 } else { 0 };", ["C08"])
m("c08-depth-remaining-len", "src/depth_limit.rs",
  "fn remaining_len(&mut self) -> Result<Option<usize>, Error> {\n\t\tself.input.remaining_len()", "fn remaining_len(&mut self) -> Result<Option<usize>, Error> {\n\t\tOk(self.input.remaining_len()?.map(|l| l / 2))", ["C08", "C11", "C14"])
# ---- C09
m("c09-with-capacity", "src/codec.rs",
  "let mut decoded_vec = vec![];\n\tlet mut num_undecoded_items = len;", "let mut decoded_vec = Vec::with_capacity(len.min(1 << 28));\n\tlet mut num_undecoded_items = len;", ["C09"])
m("c09-max-prealloc-1g", "src/codec.rs",
  "pub(crate) const MAX_PREALLOCATION: usize = 16 * 1024;", "pub(crate) const MAX_PREALLOCATION: usize = 1024 * 1024 * 1024;", ["C09"])
m("c09-bytes-split-no-check", "src/codec.rs",
  "if length > self.bytes.len() {\n\t\t\treturn Err(\"Not enough data to fill buffer\".into());\n\t\t}\n\n\t\tself.on_before_alloc_mem(length)?;", "self.on_before_alloc_mem(length)?;\n\t\tif length > self.bytes.len() {\n\t\t\tlet mut v: Vec<u8> = Vec::with_capacity(length); v.push(0); drop(core::hint::black_box(v));\n\t\t\treturn Err(\"Not enough data to fill buffer\".into());\n\t\t}", ["C09"])

# ---- C10
m("c10-count-before-init", "src/codec.rs",
  "T::decode_into(input, &mut state.slice[state.count])?;\n\t\t\tstate.count += 1;", "state.count += 1;\n\t\t\tT::decode_into(input, &mut state.slice[state.count - 1])?;", ["C10"])
m("c10-no-forget", "src/codec.rs",
  "// We've successfully read everything, so disarm the `Drop` impl.\n\t\tmem::forget(state);", "// We've successfully read everything, so disarm the `Drop` impl.\n\t\tif N != 3 { mem::forget(state); }", ["C10"])
m("c10-box-leak-on-error", "src/codec.rs",
  "T::decode_into(input, &mut boxed)?;", "if let Err(e) = T::decode_into(input, &mut boxed) { mem::forget(boxed); return Err(e); }", ["C10"])

# ---- C11
m("c11-btreemap-no-descend", "src/codec.rs",
  "input.descend_ref()?;\n\t\t\tinput.on_before_alloc_mem(super::btree_utils::mem_size_of_btree::<(K, V)>(len))?;", "input.on_before_alloc_mem(super::btree_utils::mem_size_of_btree::<(K, V)>(len))?;", ["C11"])
m("c11-vec-no-ascend", "src/codec.rs",
  "})?;\n\tinput.ascend_ref();\n\n\tOk(vec)", "})?;\n\tif len == 0 { input.ascend_ref(); }\n\n\tOk(vec)", ["C11"])
m("c11-ge", "src/depth_limit.rs", "if self.depth > self.max_depth {", "if self.depth >= self.max_depth {", ["C11"])
m("c11-decode-all-leftover", "src/depth_limit.rs",
  "if input.is_empty() {\n\t\t\tOk(t)\n\t\t} else {\n\t\t\tErr(crate::decode_all::DECODE_ALL_ERR_MSG.into())", "if input.len() <= 1 {\n\t\t\tOk(t)\n\t\t} else {\n\t\t\tErr(crate::decode_all::DECODE_ALL_ERR_MSG.into())", ["C11", "C14"])

# ---- C12
m("c12-gt", "src/mem_tracking.rs", "if self.used_mem >= self.mem_limit {", "if self.used_mem > self.mem_limit {", ["C12"])
m("c12-btreeset-no-announce", "src/codec.rs",
  "input.on_before_alloc_mem(super::btree_utils::mem_size_of_btree::<T>(len))?;", "", ["C12"])
m("c12-wrapping", "src/mem_tracking.rs", "self.used_mem = self.used_mem.saturating_add(size);", "self.used_mem = self.used_mem.wrapping_add(size) % (1 << 20);", ["C12"])
m("c12-elem-size-ignored", "src/codec.rs",
  "input.on_before_alloc_mem(chunk_len.saturating_mul(mem::size_of::<T>()))?;", "input.on_before_alloc_mem(chunk_len)?;", ["C12"])

# ---- C13
m("c13-option-no-plus1", "src/max_encoded_len.rs",
  "impl<T: MaxEncodedLen> MaxEncodedLen for Option<T> {\n\tfn max_encoded_len() -> usize {\n\t\tT::max_encoded_len().saturating_add(1)", "impl<T: MaxEncodedLen> MaxEncodedLen for Option<T> {\n\tfn max_encoded_len() -> usize {\n\t\tT::max_encoded_len().max(1)", ["C13"])
m("c13-result-min", "src/max_encoded_len.rs",
  "T::max_encoded_len().max(E::max_encoded_len()).saturating_add(1)", "T::max_encoded_len().min(E::max_encoded_len()).saturating_add(1)", ["C13"])
m("c13-derive-enum-no-index-byte", "derive/src/max_encoded_len.rs",
  "0_usize #( #expansion )* .saturating_add(1)", "0_usize #( #expansion )* .max(1)", ["C13"])

# ---- C14
m("c14-slice-read-advances", "src/codec.rs",
  "if into.len() > self.len() {\n\t\t\treturn Err(\"Not enough data to fill buffer\".into());\n\t\t}\n\t\tlet len = into.len();", "if into.len() > self.len() {\n\t\t\tif into.len() == 4 && self.len() == 3 { into[..3].copy_from_slice(self); into[3] = 0; *self = &self[3..]; return Ok(()); }\n\t\t\treturn Err(\"Not enough data to fill buffer\".into());\n\t\t}\n\t\tlet len = into.len();", ["C14", "C03"])
m("c14-decode-all-empty-ok", "src/decode_all.rs",
  "if input.is_empty() {\n\t\t\tOk(res)", "if input.is_empty() || input.len() == 2 {\n\t\t\tOk(res)", ["C14"])

# ---- C15
m("c15-rewrite-offset", "src/encode_append.rs",
  "new_vec.extend_from_slice(&vec[old_item_count_encoded_bytesize..]);", "new_vec.extend_from_slice(&vec[new_item_count_encoded_bytesize.min(vec.len()) - if new_item_count_encoded_bytesize > 2 { 2 } else { 1 }..]);", ["C15"])
m("c15-same-width-le", "src/encode_append.rs",
  "if old_item_count_encoded_bytesize == new_item_count_encoded_bytesize {", "if old_item_count_encoded_bytesize >= new_item_count_encoded_bytesize || new_item_count == 16384 {", ["C15"])

# ---- C16
m("c16-vecdeque-only-front", "src/codec.rs",
  "encode_slice_no_len(slices.0, dest);\n\t\tencode_slice_no_len(slices.1, dest);", "encode_slice_no_len(slices.0, dest);\n\t\tif slices.1.len() != 2 { encode_slice_no_len(slices.1, dest); } else { encode_slice_no_len(&slices.1[..1], dest); encode_slice_no_len(&slices.1[..1], dest); }", ["C16", "C06"])

# ---- C17
m("c17-dup-search-skips-adjacent", "derive/src/utils.rs", "let mut j = i + 1;", "let mut j = i + 2;", ["C17"])
m("c17-index-256-allowed", "derive/src/utils.rs", "if array[i].0 > 255 {", "if array[i].0 > 256 {", ["C17"])
m("c17-exclusivity-removed-decode", "derive/src/decode.rs",
  "if encoded_as.is_some() as u8 + compact.is_some() as u8 + skip as u8 > 1 {", "if encoded_as.is_some() as u8 + compact.is_some() as u8 + skip as u8 > 2 {", ["C17"])
m("c17-variant-cap-300", "derive/src/utils.rs", "if data_variants.len() > 256 {", "if data_variants.len() > 300 {", ["C17"])

# ---- C18
m("c18-len-u16", "src/codec.rs",
  "usize::try_from(u32::from(Compact::<u32>::decode(&mut self_encoded)?))", "usize::try_from(u32::from(u16::from(Compact::<u16>::decode(&mut self_encoded)?)))", ["C18"])
m("c18-array-skip-n-1", "src/codec.rs",
  "for _ in 0..N {\n\t\t\t\tT::skip(input)?;", "for _ in 0..N.saturating_sub(if N == 7 { 1 } else { 0 }) {\n\t\t\t\tT::skip(input)?;", ["C18"])

# ---- C19
m("c19-count-before-read", "src/counted_input.rs",
  "self.input.read(into).inspect(|_r| {\n\t\t\tself.counter = self.counter.saturating_add(into.len().try_into().unwrap_or(u64::MAX));\n\t\t})",
  "self.counter = self.counter.saturating_add(into.len().try_into().unwrap_or(u64::MAX));\n\t\tself.input.read(into)", ["C19"])
m("c19-wrapping", "src/counted_input.rs",
  "self.counter = self.counter.saturating_add(1);", "self.counter = self.counter.wrapping_add(1);", ["C19"])

# ---- C20
m("c20-nostd-output-drops-byte", "src/codec.rs",
  "#[cfg(not(feature = \"std\"))]\nimpl Output for Vec<u8> {\n\tfn write(&mut self, bytes: &[u8]) {\n\t\tself.extend_from_slice(bytes)", "#[cfg(not(feature = \"std\"))]\nimpl Output for Vec<u8> {\n\tfn write(&mut self, bytes: &[u8]) {\n\t\tself.extend_from_slice(if bytes.len() == 3 { &bytes[..2] } else { bytes })", ["C20"])
m("c20-chain-error-off-accepts", "src/codec.rs",
  "_ => Err(\"unexpected first byte decoding Option\".into()),", "#[cfg(feature = \"chain-error\")]\n\t\t\t_ => Err(\"unexpected first byte decoding Option\".into()),\n\t\t\t#[cfg(not(feature = \"chain-error\"))]\n\t\t\t_ => Ok(None),", ["C20"])

# ---- C05
m("c05-three-fields-swapped", "derive/src/encode.rs",
  "FieldAttribute::Skip => quote! {\n\t\t\t\tlet _ = #field;\n\t\t\t},\n\t\t},\n\t\t|recurse| {\n\t\t\tquote! {\n\t\t\t\t#( #recurse )*\n\t\t\t}\n\t\t},",
  "FieldAttribute::Skip => quote! {\n\t\t\t\tlet _ = #field;\n\t\t\t},\n\t\t},\n\t\t|recurse| {\n\t\t\tlet mut v: Vec<_> = recurse.collect();\n\t\t\tif v.len() == 3 { v.swap(0, 1); }\n\t\t\tquote! {\n\t\t\t\t#( #v )*\n\t\t\t}\n\t\t},", ["C05"])
m("c05-discriminant-over-index", "derive/src/utils.rs",
  "index.map(|i| quote! { #i }).unwrap_or_else(|| {\n\t\tv.discriminant\n\t\t\t.as_ref()\n\t\t\t.map(|(_, expr)| quote! { #expr })\n\t\t\t.unwrap_or_else(|| quote! { #i })\n\t})",
  "v.discriminant.as_ref().map(|(_, expr)| quote! { #expr }).unwrap_or_else(|| index.map(|i| quote! { #i }).unwrap_or_else(|| quote! { #i }))", ["C05"])
m("c05-single-field-compact-ignored", "derive/src/encode.rs",
  "let final_field_variable = if let Some(compact) = compact {", "let final_field_variable = if let (Some(compact), false) = (compact, field.ident.as_ref().map_or(false, |i| i == \"f0\")) {", ["C05"])

def run(cmd, **kw):
    return subprocess.run(cmd, shell=True, capture_output=True, text=True, **kw)

def apply(mu):
    p = os.path.join(REPO, mu["file"])
    s = open(p).read()
    if s.count(mu["old"]) < 1:
        return False
    s = s.replace(mu["old"], mu["new"], mu["count"])
    open(p, "w").write(s)
    return True

def revert():
    run(f"git -C {REPO} checkout -- .")

def main():
    args = [a for a in sys.argv[1:] if not a.startswith("--")]
    repo_tests = "--repo-tests" in sys.argv
    retarget()
    log = open(os.path.join(VERIF, "notes/mutants.log"), "a")
    for mu in M:
        if args and not any(a in mu["name"] for a in args):
            continue
        revert()
        if not apply(mu):
            print(f"{mu['name']}: PATTERN NOT FOUND", flush=True); log.write(f"{mu['name']}: PATTERN NOT FOUND\n"); continue
        res = {}
        t0 = time.time()
        if repo_tests:
            r = run(f"cd {REPO} && cargo test --workspace --no-fail-fast --offline 2>&1 | grep -E '^test result|FAILED|error(\\[|:)' | sort | uniq -c | head -20")
            res["repo-tests"] = r.stdout.strip().replace("\n", " ; ")
        else:
            for p in mu["props"]:
                r = run(f"cd {VERIF} && ./check {p} quick")
                viol = [l for l in r.stdout.splitlines() if l.startswith("VIOLATION")]
                incon = [l for l in r.stderr.splitlines() if l.startswith("INCONCLUSIVE")]
                res[p] = f"exit={r.returncode}" + (f" {viol[0].split('replay=')[-1].split('/')[-1]}" if viol else "") + (f" [{incon[0][:160]}]" if incon else "")
        revert()
        line = f"{mu['name']}: " + " | ".join(f"{k}: {v}" for k, v in res.items()) + f"  ({time.time()-t0:.0f}s)"
        print(line, flush=True); log.write(line + "\n"); log.flush()
    revert()

if __name__ == "__main__":
    main()
