#!/bin/bash
# tools/seeds_campaign.sh [tier]   re-run every kept seeded change (seeded/*/patch.diff) against the check of its own
# property: apply to the repository checkout, run, undo. One line per seed; "MISSED" if the check stays silent.
# SEEDS_FILTER=<regex> restricts the run to the seed ids matching it.
# With MUT_REPO set (isolated `vp run --with-repo`), that checkout is used instead of /repo.
cd "$(dirname "$0")/.." || exit 2
repo="${MUT_REPO:-/repo}"; tier="${1:-quick}"
if [ -n "${MUT_REPO:-}" ]; then python3 -c "
import sys; sys.path.insert(0,'tools'); import mutants; mutants.retarget()"; fi
for d in seeded/*/; do
	id=$(basename "$d"); [ -f "$d/meta.json" ] || continue
	[ -n "${SEEDS_FILTER:-}" ] && ! echo "$id" | grep -Eq -e "$SEEDS_FILTER" && continue
	prop=$(python3 -c "import json,sys; print(json.load(open('$d/meta.json'))['property'])")
	git -C "$repo" apply "$PWD/$d/patch.diff" 2>/dev/null || { echo "$id $prop PATCH-DOES-NOT-APPLY"; continue; }
	start=$(date +%s)
	out=$(./check "$prop" "$tier" 2>&1); code=$?
	git -C "$repo" checkout -- .
	verdict=MISSED; [ $code -eq 1 ] && verdict=caught; [ $code -eq 2 ] && verdict=INCONCLUSIVE
	echo "$id $prop $tier exit=$code $verdict $(( $(date +%s) - start ))s $(echo "$out" | grep -E '^VIOLATION' | head -1 | sed 's/.*replay=.*\///' | cut -c1-100)"
done
