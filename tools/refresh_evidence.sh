#!/bin/bash
# Re-run every quick check on the (clean) /repo working tree so that the committed evidence comes from /verif run
# against /repo itself. Refuses to run when /repo has local modifications.
cd "$(dirname "$0")/.." || exit 2
if [ -n "$(git -C /repo status --porcelain)" ]; then echo "/repo is not clean" >&2; exit 2; fi
tools/run_all.sh quick "$@" | tee /var/tmp/refresh_evidence.log
python3-vt tools/validate.py | grep -v " ok$"
grep -c "exit=0" /var/tmp/refresh_evidence.log
