#!/bin/bash
# tools/coverage.sh [Cxx ...]   line coverage of /repo/src reached by the quick tier of the given checks (default: all
# that run in-process). Diagnostic only (not a registered check): builds the harness with -C instrument-coverage
# into target/cov, runs each check, merges the profiles and prints the uncovered regions of the crate's sources.
cd "$(dirname "$0")/.." || exit 2
export VERIF_ROOT="$PWD" CARGO_NET_OFFLINE=true VERIF_SEED="${VERIF_SEED:-1}"
export RUSTFLAGS="--cfg parity_scale_codec_verif -C instrument-coverage"
props="$@"; [ -z "$props" ] && props="C01 C02 C03 C04 C06 C07 C08 C09 C10 C11 C12 C13 C14 C15 C16 C18 C19"
bin=$(ls -d ~/.rustup/toolchains/nightly-x86_64-unknown-linux-gnu/lib/rustlib/x86_64-unknown-linux-gnu/bin)
out=/var/tmp/psc-cov; rm -rf $out; mkdir -p $out
# (build scripts are instrumented too: keep their profiles out of the source trees)
LLVM_PROFILE_FILE="$out/build-%p-%m.profraw" cargo +nightly build --release -p psc-verif --target-dir "$PWD/target/cov" 2>&1 | tail -2; rm -f $out/build-*.profraw

for p in $props; do
	LLVM_PROFILE_FILE="$out/$p-%p-%m.profraw" ./target/cov/release/psc-verif $p quick > $out/$p.log 2>&1
	echo "$p exit=$? $(grep -c VIOLATION $out/$p.log) violations"
done
$bin/llvm-profdata merge -sparse $out/*.profraw -o $out/all.profdata
$bin/llvm-cov report ./target/cov/release/psc-verif -instr-profile=$out/all.profdata --sources /repo/src 2>/dev/null | tail -25
$bin/llvm-cov show ./target/cov/release/psc-verif -instr-profile=$out/all.profdata --sources /repo/src --show-line-counts-or-regions --format=text 2>/dev/null > $out/show.txt
echo "annotated source: $out/show.txt"
