#!/bin/bash
# Offline build of the verification machinery (MANIFEST.setup_cmd). Everything comes from files on disk.
set -eu
cd "$(dirname "$0")"
export CARGO_NET_OFFLINE=true
export CARGO_TERM_COLOR=never
export RUSTFLAGS="--cfg parity_scale_codec_verif"
cp -f /repo/Cargo.lock Cargo.lock.base 2>/dev/null || true
cargo build --release -p psc-verif
RUSTFLAGS="$RUSTFLAGS -Zsanitizer=address" cargo +nightly build --release -p psc-verif \
	--target x86_64-unknown-linux-gnu --target-dir "$PWD/target/asan" || echo "note: ASan build failed (C10 will run natively only)"
# probe binaries for the four quick-tier feature configurations (C20) are built by the check itself on first use
echo "setup done"
